"""Loops: cut by sidecar invariants (unbounded), or unrolled when the iterable is concrete."""
import ast
import z3

from . import theory as T
from .values import *
from .interp import (RestartFunction, Unsupported, PathEnd, BreakSig, ContinueSig, Frame, SpecCtx, VRange, VRat, GhostSeg, Event)

MUTATORS = {'append', 'extend', 'pop', 'insert', 'remove', 'clear', 'update', 'sort', 'reverse', 'setdefault',
            'popitem', 'add', 'discard'}


def loop_ordinals(fnode):
    out = {}
    k = 0
    for n in ast.walk(fnode):
        pass
    # pre-order, source order

    def visit(n):
        nonlocal k
        for ch in ast.iter_child_nodes(n):
            if isinstance(ch, (ast.For, ast.While)):
                k += 1
                out[id(ch)] = k
            if isinstance(ch, (ast.FunctionDef, ast.Lambda, ast.ClassDef)):
                continue
            visit(ch)
    visit(fnode)
    return out


class Loops:
    def __init__(self, ctx):
        self.ctx = ctx
        self._ord = {}
        self.extra_events = {}      # id(loop node) -> event names its body was SEEN to emit although the syntactic analysis missed them

    def ordinal(self, finfo, node):
        if finfo is None:
            return None
        key = id(finfo.node)
        if key not in self._ord:
            self._ord[key] = loop_ordinals(finfo.node)
        return self._ord[key].get(id(node))

    def spec_for(self, frame, node):
        fi = frame.finfo
        if fi is None:
            return None, None
        k = self.ordinal(fi, node)
        if k is None:
            # a loop inside a nested function (a continuation defined in the method): keyed "<method>.<inner>", ordinals per inner def
            for inner in ast.walk(fi.node):
                if isinstance(inner, ast.FunctionDef) and inner is not fi.node:
                    key = ('nested', id(inner))
                    if key not in self._ord:
                        self._ord[key] = loop_ordinals(inner)
                    k2 = self._ord[key].get(id(node))
                    if k2 is not None:
                        return self.ctx.registry.loops.get((fi.module.relpath, '%s.%s' % (fi.qualname, inner.name), k2)), k2
        return self.ctx.registry.loops.get((fi.module.relpath, fi.qualname, k)), k

    def run_body_checked(self, I, node, frame, events, run):
        """Execute the loop body (via `run`) and check, on every way out of it, that each event it emitted had been summarised at
        the cut.  The syntactic analysis (mod_set) cannot see events of constructors, of functions called by name, of inlined or
        auto-inlined callees and of methods whose receiver it cannot resolve; an event that is emitted but not summarised keeps its
        concrete pre-loop count in the assumed invariant, which silently restricts the proof to the first iteration.  Instead of
        trusting the analysis: observe, add the missing names, and restart the function."""
        before = set(id(e) for e in I.st.trace)
        try:
            return run()
        finally:
            seen = set(e.name for e in I.st.trace if id(e) not in before and isinstance(e, (Event, GhostSeg)))
            missing = seen - set(events)
            if missing:
                self.extra_events.setdefault(id(node), set()).update(missing)
                raise RestartFunction('loop body emitted events not summarised at the cut: %s' % sorted(missing), node)

    def events_of_method(self, attr):
        if not hasattr(self, '_ev_by_attr'):
            m = {}
            R = self.ctx.registry
            for name, d in R.externs.items():
                m.setdefault(name.rsplit('.', 1)[-1], set()).add(d.get('event', name))
            for (file, qual), d in R.opaques.items():
                m.setdefault(qual.rsplit('.', 1)[-1], set()).add(d.get('event', qual.rsplit('.', 1)[-1]))
            self._ev_by_attr = m
        return self._ev_by_attr.get(attr, set())

    # ---- syntactic modification analysis ------------------------------------------------------------
    def mod_set(self, I, body_nodes, frame):
        names = set()
        paths = []       # ast expressions whose referent is mutated
        fields = []      # (ast expr of object, field name)
        events = set()
        ctx = self.ctx
        sqlmods = self._sqlmods = set()

        def target(t):
            if isinstance(t, ast.Name):
                names.add(t.id)
            elif isinstance(t, (ast.Tuple, ast.List)):
                for e in t.elts:
                    target(e)
            elif isinstance(t, ast.Attribute):
                fields.append((t.value, t.attr))
            elif isinstance(t, ast.Subscript):
                paths.append(t.value)
            elif isinstance(t, ast.Starred):
                target(t.value)

        def visit(n):
            if isinstance(n, (ast.Assign,)):
                for t in n.targets:
                    target(t)
            elif isinstance(n, (ast.AugAssign, ast.AnnAssign)):
                target(n.target)
            elif isinstance(n, ast.For):
                target(n.target)
            elif isinstance(n, ast.Delete):
                for t in n.targets:
                    target(t)
            elif isinstance(n, ast.ExceptHandler) and n.name:
                names.add(n.name)
            elif isinstance(n, ast.With):
                for it in n.items:
                    if it.optional_vars is not None:
                        target(it.optional_vars)
            elif isinstance(n, ast.Call):
                if isinstance(n.func, ast.Attribute):
                    if n.func.attr in ('execute', 'executemany', 'commit', 'rollback') and getattr(ctx, 'sql', None) is not None:
                        sqlmods.add('D' if n.func.attr in ('commit', 'rollback') else 'W')
                    if n.func.attr in MUTATORS:
                        paths.append(n.func.value)
                    info = ctx.static_callee(I, n, frame)
                    if info is not None:
                        kind, data = info
                        if kind == 'contract':
                            contract, recv_expr = data
                            pnames = [p for p, _ in contract.params]
                            for m in contract.of('modifies'):
                                for a in m.args:
                                    if isinstance(a, ast.Name):
                                        pi = pnames.index(a.id)
                                        has_self = pnames and pnames[0] == 'self'
                                        ai = pi - (1 if has_self else 0)
                                        if a.id == 'self':
                                            raise Unsupported('modifies(self) without field', n)
                                        if 0 <= ai < len(n.args):
                                            paths.append(n.args[ai])
                                        else:
                                            for kw in n.keywords:
                                                if kw.arg == a.id:
                                                    paths.append(kw.value)
                                    elif isinstance(a, ast.Attribute) and isinstance(a.value, ast.Name) and a.value.id == 'self':
                                        fields.append((recv_expr, a.attr))
                                    else:
                                        raise Unsupported('modifies clause form', n)
                            for e in ctx.contract_events(contract):
                                events.add(e)
                        elif kind == 'opaque':
                            events.add(data)
                            for a in n.args:
                                if isinstance(a, (ast.Name, ast.Attribute)):
                                    paths.append(('maybe', a))
                        elif kind == 'inline':
                            fi = data
                            for sub in ast.walk(fi.node):
                                if isinstance(sub, (ast.Assign, ast.AugAssign, ast.Delete)):
                                    tg = sub.targets if isinstance(sub, (ast.Assign, ast.Delete)) else [sub.target]
                                    for t in tg:
                                        if not isinstance(t, (ast.Name, ast.Tuple)):
                                            raise Unsupported('inlined callee %s mutates the heap inside a cut loop' % fi.qualname, n)
                                if isinstance(sub, ast.Call) and isinstance(sub.func, ast.Attribute) and sub.func.attr in MUTATORS:
                                    raise Unsupported('inlined callee %s mutates the heap inside a cut loop' % fi.qualname, n)
                    else:
                        # unknown method on unknown receiver: opaque call -> event.  The event's run-time name depends on the
                        # receiver's label ("<label>.<method>") or on an event= alias, which is not known syntactically: every
                        # declared event that a method of this name can produce is summarised at the cut (over-approximation)
                        events.add(n.func.attr)
                        events.update(self.events_of_method(n.func.attr))
            for ch in ast.iter_child_nodes(n):
                if isinstance(ch, (ast.FunctionDef, ast.Lambda)):
                    continue
                visit(ch)
        for b in body_nodes:
            visit(b)
        return names, paths, fields, events

    def havoc_value(self, I, v, name, ty=None):
        ctx = self.ctx
        if ty is not None:
            return ctx.make_symbolic(I, ty, 'hv_' + name)
        if isinstance(v, VInt):
            return VInt(I.fresh_int('hv_' + name))
        if isinstance(v, VBool):
            return VBool(I.fresh_bool('hv_' + name))
        if isinstance(v, VSeq):
            nv = v.with_term(I.fresh('hv_' + name, v.th.sort))
            if v.kind in ('bytes', 'bytearray'):
                I.assume(T.IsBytes(nv.t))
            return nv
        if isinstance(v, VOpt):
            return VOpt(I.fresh_bool('hv_none_' + name), self.havoc_value(I, v.val, name))
        if isinstance(v, VTuple):
            return VTuple([self.havoc_value(I, x, '%s_%d' % (name, k)) for k, x in enumerate(v.items)])
        if isinstance(v, VRat):
            return VRat(I.fresh_int('hv_' + name), v.den)
        if isinstance(v, VOpaque):
            t = I.fresh('hv_' + name, T.Obj)
            I.assume(t != self.ctx.NONE_OBJ)
            return VOpaque(t, v.label)
        if isinstance(v, VRef):
            c = I.cell(v)
            if isinstance(c, (HList, HDict)):
                # rebinding a local that holds a list: the new binding may be a *different* list
                nc = I.alloc(HList(c.content, c.kind) if isinstance(c, HList) else HDict(c.content))
                I.havoc_ref(nc)
                return nc
        if isinstance(v, VNone):
            raise Unsupported('loop rebinds %s, which is None at the loop head: give its type in the loop spec' % name)
        raise Unsupported('cannot havoc %s = %r' % (name, v))

    def do_havoc(self, I, frame, spec, names, paths, fields, events, skip_names=()):
        ann = {p: t for p, t in spec.params if t is not None}
        for p_, n_ in self.aliases(I, spec, frame).items():
            if p_ in ann:
                ann[n_] = ann[p_]
        # evaluate mutated paths at the loop head
        for p in paths:
            maybe = False
            if isinstance(p, tuple):
                maybe, p = True, p[1]
            try:
                v = I.ev(p, frame)
            except Unsupported:
                if maybe:
                    continue
                raise
            v = I.unwrap(v)
            if isinstance(v, VRef) and (I.is_list(v) or I.is_dict(v)):
                hint = None
                if isinstance(p, ast.Name) and p.id in ann:
                    hint = {'ListInt': 'int', 'ListByte': 'int', 'ListBytes': 'seq', 'ListStr': 'seq', 'ListObj': 'obj', 'DictObjObj': 'objmap'}.get(ann[p.id].name)
                I.havoc_ref(v, hint=hint)
            elif maybe:
                continue
            elif isinstance(v, (VSeq, VTuple, VInt, VNone)):
                continue
            else:
                raise Unsupported('mutated path %s has no heap referent' % ast.unparse(p))
        for fld in getattr(self, '_sqlmods', ()):
            # SQL statements inside the loop: the table states of every connection may change
            for loc, cell in list(I.st.heap.items()):
                if isinstance(cell, HObj) and cell.extname == 'Connection':
                    cur = cell.fields[fld]
                    I.st.heap[loc] = I.st.heap[loc].set(fld, VMap(I.fresh('hv_' + fld, cur.th.sort), cur.th, cur.kkind, cur.vkind))
        for (oe, fname) in fields:
            obj = I.unwrap(I.ev(oe, frame))
            if not I.is_obj(obj):
                raise Unsupported('field store on non-object in loop')
            c = I.cell(obj)
            m = I.mangle(fname, frame)
            cur = c.fields.get(m)
            if cur is None:
                raise Unsupported('loop assigns field %s that does not exist at the loop head' % fname)
            I.st.heap[obj.loc] = I.cell(obj).set(m, self.havoc_value(I, cur, fname))
        for n in names:
            if n in skip_names:
                continue
            if n in frame.env:
                frame.env[n] = self.havoc_value(I, frame.env[n], n, ann.get(n))
            elif n in ann:
                frame.env[n] = self.ctx.make_symbolic(I, ann[n], 'hv_' + n)
            # otherwise: first bound inside the body; stays unbound at the head
        # events: replace the trace by ghost summaries
        if events:
            I.st.trace = self.summarise_trace(I, events)

    def summarise_trace(self, I, events):
        """At a loop cut, the events emitted so far by names the body may emit become ghost sequences."""
        new = []
        for ev in I.st.trace:
            if isinstance(ev, Event) and ev.name in events:
                continue
            if isinstance(ev, GhostSeg) and ev.name in events:
                continue
            new.append(ev)
        for name in sorted(events):
            th = self.ctx.event_seq_theory(name)
            g = VSeq(I.fresh('ev_' + name, th.sort), 'list', th, ekind='bytes')
            new.append(GhostSeg(name, g))
        return new

    def aliases(self, I, spec, frame):
        """A loop spec names the locals it speaks about.  When the code was edited so that such a name no longer exists (a renamed
        accumulator), the spec parameter is bound to THE local that plays the same role, if that is unambiguous: a local of the
        function that no spec parameter names, that is not a parameter of the function, and whose value has the annotated kind
        (list for List*, int for Int, ...).  Ambiguity or no candidate: the function leaves the subset as before."""
        missing = [(p, t) for p, t in spec.params if p not in frame.env]
        if not missing:
            return {}
        fparams = set()
        if frame.finfo is not None:
            for fn_ in ast.walk(frame.finfo.node):
                if isinstance(fn_, (ast.FunctionDef, ast.Lambda)):
                    a_ = fn_.args
                    fparams |= {x.arg for x in a_.args + a_.kwonlyargs} | ({a_.vararg.arg} if a_.vararg else set()) | ({a_.kwarg.arg} if a_.kwarg else set())
        named = {p for p, _ in spec.params}
        out = {}
        for p, t in missing:
            def kind_ok(v):
                v = I.unwrap(v) if not isinstance(v, VNone) else v
                if t is None:
                    return True
                if t.name.startswith('List') or t.name in ('ByteArray',):
                    return I.is_list(v)
                if t.name in ('Int', 'Nat'):
                    return isinstance(v, VInt)
                if t.name == 'Bool':
                    return isinstance(v, VBool)
                if t.name in ('Str', 'Bytes', 'Latin1'):
                    return isinstance(v, VSeq)
                return True
            cands = [n for n, v in frame.env.items() if n not in named and n not in fparams and not n.startswith('$') and n not in out.values() and kind_ok(v)]
            if len(cands) != 1:
                return {}
            out[p] = cands[0]
            self.ctx.notes.append('loop spec parameter %s bound to the local %s (the name %s no longer exists in %s)'
                                  % (p, cands[0], p, frame.finfo.qualname if frame.finfo else '?')) \
                if ('loop spec parameter %s bound to the local %s (the name %s no longer exists in %s)'
                    % (p, cands[0], p, frame.finfo.qualname if frame.finfo else '?')) not in self.ctx.notes else None
        return out

    # ---- invariant evaluation ----------------------------------------------------------------------------
    def eval_clauses(self, I, spec, frame, kind, k_val=None, extra=None):
        env = {}
        alias = self.aliases(I, spec, frame)
        for p, _ in spec.params:
            if p in frame.env:
                env[p] = frame.env[p]
            elif p in alias:
                env[p] = frame.env[alias[p]]
            else:
                raise Unsupported('loop spec refers to local %s which is not bound at the loop head' % p)
        if extra:
            env.update(extra)
        fr = Frame(env, None, sidecar=spec.sidecar)
        entry = I.ctx.entry_spec(I, frame)
        fr.spec = SpecCtx(old_state=entry.old_state if entry else None, entry_env=entry.entry_env if entry else None,
                          loop={'k': k_val})
        out = []
        I.pure += 1
        try:
            for c in spec.of(kind):
                v = I.ev(c.args[0], fr)
                out.append(v)
        finally:
            I.pure -= 1
        return out

    def run_hints(self, I, spec, frame, k_val):
        for c in spec.of('hint'):
            env = {p: frame.env[p] for p, _ in spec.params if p in frame.env}
            fr = Frame(env, None, sidecar=spec.sidecar)
            entry = I.ctx.entry_spec(I, frame)
            fr.spec = SpecCtx(old_state=entry.old_state if entry else None, entry_env=entry.entry_env if entry else None,
                              loop={'k': k_val})
            I.ctx.use_lemma_call(I, c.args[0], fr)

    # ---- while ---------------------------------------------------------------------------------------------
    def exec_while(self, I, node, frame):
        spec, k = self.spec_for(frame, node)
        if spec is None:
            raise Unsupported('while loop #%s of %s without invariant' % (k, frame.finfo.qualname if frame.finfo else '?'), node)
        fq = frame.finfo.qualname
        invs = self.eval_clauses(I, spec, frame, 'invariant')
        for j, v in enumerate(invs):
            I.prove('%s:inv-entry#loop%d.%d' % (fq, k, j + 1), 'invariant', I.truthy(v), node)
        names, paths, fields, events = self.mod_set(I, node.body + [ast.Expr(node.test)], frame)
        events = set(events) | self.extra_events.get(id(node), set())
        self.do_havoc(I, frame, spec, names, paths, fields, events)
        for v in self.eval_clauses(I, spec, frame, 'invariant'):
            I.assume(I.truthy(v))
        self.run_hints(I, spec, frame, None)
        var0 = self.eval_clauses(I, spec, frame, 'decreases')
        c = self.run_body_checked(I, node, frame, events, lambda: I.truthy(I.ev(node.test, frame), node))
        if I.branch(c):
            try:
                self.run_body_checked(I, node, frame, events, lambda: I.ex_block(node.body, frame))
            except ContinueSig:
                pass
            except BreakSig:
                return
            for j, v in enumerate(self.eval_clauses(I, spec, frame, 'invariant')):
                I.prove('%s:inv-preserve#loop%d.%d' % (fq, k, j + 1), 'invariant', I.truthy(v), node)
            var1 = self.eval_clauses(I, spec, frame, 'decreases')
            if spec.of('partial'):
                self.ctx.assumptions.add('termination of loop #%d of %s is NOT proved (partial correctness): %s'
                                         % (k, fq, spec.of('partial')[0].args[0].value))
            elif not var0:
                I.prove('%s:variant-given#loop%d' % (fq, k), 'termination', False, node, detail='while loop without decreases clause')
            for a, b in zip(var0, var1):
                I.prove('%s:variant#loop%d' % (fq, k), 'termination', z3.And(I.as_int(a) >= 0, I.as_int(b) < I.as_int(a)), node)
            raise PathEnd()
        else:
            I.ex_block(node.orelse, frame)

    # ---- for -----------------------------------------------------------------------------------------------
    def exec_for(self, I, node, frame):
        enum = None
        if isinstance(node.iter, ast.Call) and isinstance(node.iter.func, ast.Name) and node.iter.func.id == 'enumerate' \
                and len(node.iter.args) == 1 and not node.iter.keywords and 'enumerate' not in frame.env:
            # for i, x in enumerate(xs): the same iteration space as xs, the index bound alongside
            enum = True
            it = I.unwrap(I.ev(node.iter.args[0], frame), node)
        else:
            it = I.unwrap(I.ev(node.iter, frame), node)
        spec, k = self.spec_for(frame, node)
        concrete = self.concrete_items(I, it)
        if enum and concrete is not None:
            concrete = [VTuple([VInt(z3.IntVal(i_)), x_]) for i_, x_ in enumerate(concrete)]
        if concrete is not None and spec is None:
            broke = False
            for x in concrete:
                I.assign(node.target, x, frame)
                try:
                    I.ex_block(node.body, frame)
                except ContinueSig:
                    continue
                except BreakSig:
                    broke = True
                    break
            if not broke:
                I.ex_block(node.orelse, frame)
            return
        if spec is None:
            raise Unsupported('for loop #%s of %s over a symbolic iterable without invariant' % (k, frame.finfo.qualname if frame.finfo else '?'), node)
        fq = frame.finfo.qualname
        # iteration space
        if isinstance(it, VRange):
            if it.step != 1:
                raise Unsupported('range step in cut loop', node)
            n_iter = z3.If(it.hi - it.lo >= 0, it.hi - it.lo, 0)
            elem = lambda kk: VInt(it.lo + kk)
        else:
            items_hook = self.ctx.iter_hook(I, it, node)
            if items_hook is not None:
                n_iter, elem = items_hook
            else:
                s = I.seq_of(it, node)
                n_iter = s.th.Len(s.t)
                elem = lambda kk: I.wrap_elem(s, s.th.Idx(s.t, kk))
        if enum:
            elem0 = elem
            elem = lambda kk: VTuple([VInt(kk), elem0(kk)])
        zero = z3.IntVal(0)
        for j, v in enumerate(self.eval_clauses(I, spec, frame, 'invariant', k_val=zero)):
            I.prove('%s:inv-entry#loop%d.%d' % (fq, k, j + 1), 'invariant', I.truthy(v), node)
        names, paths, fields, events = self.mod_set(I, node.body, frame)
        tnames = set()

        def tn(t):
            if isinstance(t, ast.Name):
                tnames.add(t.id)
            elif isinstance(t, (ast.Tuple, ast.List)):
                for e in t.elts:
                    tn(e)
        tn(node.target)
        if isinstance(it, VRef) and any(True for p in paths if not isinstance(p, tuple) and isinstance(p, ast.Name)
                                        and frame.env.get(p.id) is it):
            raise Unsupported('loop mutates the list it iterates', node)
        events = set(events) | self.extra_events.get(id(node), set())
        self.do_havoc(I, frame, spec, names | tnames, paths, fields, events, skip_names=tnames)
        kk = I.fresh_int('k')
        I.assume(z3.And(0 <= kk, kk <= n_iter))
        for v in self.eval_clauses(I, spec, frame, 'invariant', k_val=kk):
            I.assume(I.truthy(v))
        self.run_hints(I, spec, frame, kk)
        if I.branch(kk < n_iter):
            I.assign(node.target, elem(kk), frame)
            try:
                self.run_body_checked(I, node, frame, events, lambda: I.ex_block(node.body, frame))
            except ContinueSig:
                pass
            except BreakSig:
                return
            for j, v in enumerate(self.eval_clauses(I, spec, frame, 'invariant', k_val=kk + 1)):
                I.prove('%s:inv-preserve#loop%d.%d' % (fq, k, j + 1), 'invariant', I.truthy(v), node)
            raise PathEnd()
        else:
            # loop finished: kk == n_iter
            cur = getattr(self.ctx, 'current', None)
            if cur is not None and cur.key in self.ctx.reports:
                # vacuity cover: the state AFTER the loop must be possible for a run of at least one iteration (a contradictory
                # invariant, or an event / variable the cut failed to generalise, makes it impossible: see DESIGN 11, soundness 15)
                live = self.ctx.reports[cur.key].__dict__.setdefault('loop_exit_live', {})
                key_ = '%s#loop%d' % (fq, k)
                if not live.get(key_):
                    from . import prover as _pr
                    live[key_] = _pr.feasible(self.ctx.axioms(True), I.st.pc, kk >= 1, timeout_ms=1000)
            I.ex_block(node.orelse, frame)

    def concrete_items(self, I, it):
        if isinstance(it, VTuple):
            return list(it.items)
        if I.is_list(it) and isinstance(I.cell(it).content, list):
            return list(I.cell(it).content)
        if isinstance(it, VRange):
            lo, hi = VInt(it.lo).const(), VInt(it.hi).const()
            if lo is not None and hi is not None and hi - lo <= 64:
                return [VInt(x) for x in range(lo, hi, it.step)]
        c = self.ctx.concrete_iter(I, it)
        return c
