"""Solver interface: discharge one obligation, or test feasibility of a path condition.

Primary: z3 (python API, SimpleSolver, E-matching only).  Fall-back for `unknown` without a
decision: SMT-LIB2 dump handed to /usr/bin/cvc5 and /usr/bin/z3 (4.8.12).
"""
import os
import subprocess
import tempfile
import time
import z3

from . import theory as T

STATS = {'queries': 0, 'time': 0.0, 'by_backend': {}, 'feas_queries': 0, 'feas_time': 0.0}


def _mk_solver(timeout_ms, seed=0):
    s = z3.SimpleSolver()
    s.set('timeout', int(timeout_ms))
    s.set('random_seed', int(seed) & 0x7fffffff)
    return s


def split_conj(g):
    if z3.is_and(g):
        out = []
        for c in g.children():
            out += split_conj(c)
        return out
    return [g]


def _ext_goal(goal):
    """Rewrite top-level sequence / map equalities of the goal into the triggered extensional
    predicates (sound: Eq(a,b) => a == b is an axiom; we only make the goal *stronger or equal*)."""
    if z3.is_eq(goal):
        a, b = goal.arg(0), goal.arg(1)
        for th in list(T.SeqTheory.registry.values()) + list(T.MapTheory.registry.values()):
            if a.sort().eq(th.sort):
                return th.Eq(a, b)
    if z3.is_implies(goal):
        return z3.Implies(goal.arg(0), _ext_goal(goal.arg(1)))
    if z3.is_and(goal):
        return z3.And(*[_ext_goal(c) for c in goal.children()])
    return goal


class Result:
    def __init__(self, status, backend, secs, model=None, reason=''):
        self.status = status        # 'unsat' | 'sat' | 'unknown'
        self.backend = backend
        self.secs = secs
        self.model = model
        self.reason = reason


def _budget_reason(reason):
    r = (reason or '').lower()
    return 'timeout' in r or 'canceled' in r or 'resource' in r or 'interrupted' in r


def check_valid(axioms, pc, goal, timeout_ms=10000, seed=0, external=True, _retry=True):
    """Is  axioms /\\ pc ==> goal  valid?  Returns Result with status 'unsat' when proved.

    A query that fails only because the wall-clock budget ran out (z3 reports timeout / canceled) is re-tried once with four
    times the budget, so that a loaded machine does not turn a passing obligation into a failing one."""
    r = _check_valid(axioms, pc, goal, timeout_ms, seed, external)
    if r.status != 'unsat' and _retry and external and _budget_reason(r.reason):
        STATS['retries'] = STATS.get('retries', 0) + 1
        r2 = _check_valid(axioms, pc, goal, timeout_ms * 4, seed, external)
        r2.secs += r.secs
        if r2.status != 'unsat':
            r2.reason = (r2.reason or '') + ' (after retry with 4x budget)'
        return r2
    return r


def _check_valid(axioms, pc, goal, timeout_ms=10000, seed=0, external=True):
    t0 = time.time()
    STATS['queries'] += 1
    attempts = []
    ext_budget = False
    goals = [('direct', goal)]
    eg = _ext_goal(goal)
    if eg is not None and not z3.eq(eg, goal):
        goals.append(('ext', eg))
    last = None
    for tag, g in goals:
        s = _mk_solver(timeout_ms, seed)
        s.add(*axioms)
        s.add(*pc)
        s.add(z3.Not(g))
        r = s.check()
        if r == z3.unsat:
            dt = time.time() - t0
            STATS['time'] += dt
            STATS['by_backend']['z3-5.1:' + tag] = STATS['by_backend'].get('z3-5.1:' + tag, 0) + 1
            return Result('unsat', 'z3-5.1.0(%s)' % tag, dt)
        model = None
        try:
            model = s.model()
        except z3.Z3Exception:
            model = None
        last = (str(r), s.reason_unknown() if r == z3.unknown else '', model, s if tag == 'direct' else None)
        attempts.append(last)
    if external:
        s = z3.Solver()
        s.add(*axioms)
        s.add(*pc)
        s.add(z3.Not(goals[-1][1]))
        smt = '(set-logic ALL)\n' + s.to_smt2()
        for name, cmd in (('cvc5-1.0.3', ['/usr/bin/cvc5', '--tlimit=%d' % timeout_ms, '--lang=smt2']),
                          ('z3-4.8.12', ['/usr/bin/z3', '-T:%d' % max(1, timeout_ms // 1000), '-smt2', 'smt.mbqi=false', 'auto_config=false'])):
            try:
                with tempfile.NamedTemporaryFile('w', suffix='.smt2', delete=False, dir=os.environ.get('PYVC_SCRATCH', None)) as f:
                    f.write(smt)
                    fn = f.name
                t_ext = time.time()
                out = subprocess.run(cmd + [fn], capture_output=True, text=True, timeout=timeout_ms / 1000 + 5).stdout
                os.unlink(fn)
                if not out.strip().startswith(('unsat', 'sat')) and time.time() - t_ext >= 0.8 * timeout_ms / 1000:
                    ext_budget = True           # the external solver ran out of its budget too (a loaded machine, or a hard query)
                if out.strip().startswith('unsat'):
                    dt = time.time() - t0
                    STATS['time'] += dt
                    STATS['by_backend'][name] = STATS['by_backend'].get(name, 0) + 1
                    return Result('unsat', name, dt)
            except subprocess.TimeoutExpired:
                ext_budget = True
                try:
                    os.unlink(fn)
                except Exception:
                    pass
            except Exception:
                try:
                    os.unlink(fn)
                except Exception:
                    pass
    dt = time.time() - t0
    STATS['time'] += dt
    if os.environ.get('PYVC_DUMP'):
        sd = z3.Solver()
        sd.add(*axioms)
        sd.add(*pc)
        sd.add(z3.Not(goal))
        STATS['dumped'] = STATS.get('dumped', 0) + 1
        with open(os.path.join(os.environ['PYVC_DUMP'], 'fail_%d.smt2' % STATS['dumped']), 'w') as f:
            f.write('; goal: %s\n' % str(goal).replace('\n', ' ')[:6000])
            f.write(sd.to_smt2())
    st, reason, model, _ = attempts[0]
    if ext_budget and st != 'sat':
        reason = (reason or '') + ' external solver timeout'
    return Result('sat' if st == 'sat' else 'unknown', 'z3-5.1.0', dt, model=model, reason=reason)


def feasible(axioms, pc, cond, timeout_ms=1500):
    """May  pc /\\ cond  be satisfiable?  Only `unsat` prunes."""
    t0 = time.time()
    STATS['feas_queries'] += 1
    s = _mk_solver(timeout_ms)
    s.add(*axioms)
    s.add(*pc)
    s.add(cond)
    r = s.check()
    STATS['feas_time'] += time.time() - t0
    return r != z3.unsat
