"""Axiomatised theories used by PyVC: sequences, maps, byte predicates.

Everything is plain UF + linear integer arithmetic + quantifiers with explicit patterns, so
that z3 decides by E-matching (smt.mbqi=false) and the SMT-LIB dump is portable to cvc5 and
to z3 4.8.  z3's native Seq theory is NOT used (DESIGN.md section 2).
"""
import z3
_QN = [0]


def _FA(vs, body, patterns=None, prefix='ax'):
    _QN[0] += 1
    return z3.ForAll(vs, body, qid='%s%d' % (prefix, _QN[0]), patterns=patterns or [])

z3.set_param('auto_config', False)
z3.set_param('smt.mbqi', False)
z3.set_param('smt.random_seed', 0)

I = z3.IntSort()
B = z3.BoolSort()


def IntV(n):
    return z3.IntVal(n)


class SeqTheory:
    """Sequences over `elem` (a z3 sort).  Dafny-prelude style axioms."""

    registry = {}

    def __init__(self, name, elem):
        self.name = name
        self.elem = elem
        S = z3.DeclareSort(name)
        self.sort = S
        f = lambda n, *s: z3.Function('%s.%s' % (name, n), *s)
        self.Len = f('len', S, I)
        self.Idx = f('idx', S, I, elem)
        self.Empty = z3.Const('%s.empty' % name, S)
        self.Unit = f('unit', elem, S)
        self.App = f('app', S, S, S)
        self.Take = f('take', S, I, S)
        self.Drop = f('drop', S, I, S)
        self.Upd = f('upd', S, I, elem, S)
        self.Rep = f('rep', elem, I, S)          # [e] * n
        self.Eq = f('eq', S, S, B)               # extensional equality (triggered)
        self.axioms = self._axioms()
        SeqTheory.registry[name] = self

    # ---- term builders -------------------------------------------------------------
    def app(self, a, b):
        """Right-nested, unit-elimination aware append."""
        if z3.eq(a, self.Empty):
            return b
        if z3.eq(b, self.Empty):
            return a
        if z3.is_app(a) and a.decl().eq(self.App):
            return self.app(a.arg(0), self.app(a.arg(1), b))
        return self.App(a, b)

    def concat(self, parts):
        r = self.Empty
        for p in reversed(parts):
            r = self.app(p, r)
        return r

    def lit(self, elems):
        return self.concat([self.Unit(e) for e in elems])

    def slice(self, s, lo, hi):
        """s[lo:hi] for 0 <= lo <= hi <= len(s) (caller establishes the range)."""
        lo = z3.simplify(lo) if z3.is_expr(lo) else IntV(lo)
        d = s if z3.is_int_value(lo) and lo.as_long() == 0 else self.Drop(s, lo)
        if hi is None:
            return d
        n = z3.simplify(hi - lo)
        return self.Take(d, n)

    # ---- axioms ----------------------------------------------------------------------
    def _axioms(self):
        S, E = self.sort, self.elem
        Len, Idx, Empty, Unit, App, Take, Drop, Upd, Rep, Eq = (
            self.Len, self.Idx, self.Empty, self.Unit, self.App, self.Take, self.Drop, self.Upd,
            self.Rep, self.Eq)
        s, a, b, c = z3.Consts('s a b c', S)
        i, j, n, m = z3.Ints('i j n m')
        e, e2 = z3.Consts('e e2', E)
        A = []

        def fa(vs, body, *pats):
            A.append(z3.ForAll(vs, body, qid='%s.ax%d' % (self.name, len(A)), patterns=list(pats)))

        # length
        fa([s], Len(s) >= 0, Len(s))
        A.append(Len(Empty) == 0)
        fa([s], z3.Implies(Len(s) == 0, s == Empty), Len(s))
        fa([e], z3.And(Len(Unit(e)) == 1, Idx(Unit(e), 0) == e), Unit(e))
        fa([a, b], Len(App(a, b)) == Len(a) + Len(b), App(a, b))
        fa([a], App(a, Empty) == a, App(a, Empty))
        fa([a], App(Empty, a) == a, App(Empty, a))
        fa([a, b, c], App(App(a, b), c) == App(a, App(b, c)), App(App(a, b), c))
        # index of append
        fa([a, b, i], z3.And(z3.Implies(z3.And(0 <= i, i < Len(a)), Idx(App(a, b), i) == Idx(a, i)),
                             z3.Implies(z3.And(Len(a) <= i), Idx(App(a, b), i) == Idx(b, i - Len(a)))),
           Idx(App(a, b), i))
        # take / drop
        fa([s, n], z3.Implies(z3.And(0 <= n, n <= Len(s)), Len(Take(s, n)) == n), Take(s, n))
        fa([s, n, i], z3.Implies(z3.And(0 <= i, i < n, n <= Len(s)), Idx(Take(s, n), i) == Idx(s, i)),
           Idx(Take(s, n), i))
        fa([s, n], z3.Implies(z3.And(0 <= n, n <= Len(s)), Len(Drop(s, n)) == Len(s) - n), Drop(s, n))
        fa([s, n, i], z3.Implies(z3.And(0 <= n, 0 <= i, i + n < Len(s)), Idx(Drop(s, n), i) == Idx(s, i + n)),
           Idx(Drop(s, n), i))
        fa([s], Take(s, 0) == Empty, Take(s, 0))
        fa([s], Drop(s, 0) == s, Drop(s, 0))
        fa([s, n], z3.Implies(n == Len(s), z3.And(Take(s, n) == s)), Take(s, n))
        fa([s, n], z3.Implies(n == Len(s), z3.And(Drop(s, n) == Empty)), Drop(s, n))
        # split / join
        # triggered only when the re-joined term exists (a Take- or Drop-only trigger makes a matching loop
        # through Idx(App(..)) / Idx(Drop(..)) with ever new index terms)
        fa([s, n], z3.Implies(z3.And(0 <= n, n <= Len(s)), App(Take(s, n), Drop(s, n)) == s), App(Take(s, n), Drop(s, n)))
        fa([a, b, n], z3.And(z3.Implies(n == Len(a), Take(App(a, b), n) == a),
                             z3.Implies(z3.And(0 <= n, n < Len(a)), Take(App(a, b), n) == Take(a, n)),
                             z3.Implies(z3.And(n > Len(a), n <= Len(a) + Len(b)),
                                        Take(App(a, b), n) == App(a, Take(b, n - Len(a))))),
           Take(App(a, b), n))
        fa([a, b, n], z3.And(z3.Implies(n == Len(a), Drop(App(a, b), n) == b),
                             z3.Implies(z3.And(0 <= n, n < Len(a)), Drop(App(a, b), n) == App(Drop(a, n), b)),
                             z3.Implies(z3.And(n > Len(a), n <= Len(a) + Len(b)),
                                        Drop(App(a, b), n) == Drop(b, n - Len(a)))),
           Drop(App(a, b), n))
        fa([s, m, n], z3.Implies(z3.And(0 <= m, 0 <= n, m + n <= Len(s)), Drop(Drop(s, m), n) == Drop(s, m + n)),
           Drop(Drop(s, m), n))
        fa([s, m, n], z3.Implies(z3.And(0 <= n, n <= m, m <= Len(s)), Take(Take(s, m), n) == Take(s, n)),
           Take(Take(s, m), n))
        # head / tail and init / last decompositions (the induction schemes of spec functions)
        fa([s], z3.Implies(Len(s) >= 1, s == App(Unit(Idx(s, 0)), Drop(s, 1))), Drop(s, 1))
        fa([s, n], z3.Implies(z3.And(Len(s) >= 1, n == Len(s) - 1), s == App(Take(s, n), Unit(Idx(s, n)))), Take(s, n))
        # update
        fa([s, i, e], z3.Implies(z3.And(0 <= i, i < Len(s)), Len(Upd(s, i, e)) == Len(s)), Upd(s, i, e))
        fa([s, i, e, j], z3.Implies(z3.And(0 <= i, i < Len(s), 0 <= j, j < Len(s)),
                                    Idx(Upd(s, i, e), j) == z3.If(i == j, e, Idx(s, j))),
           Idx(Upd(s, i, e), j))
        # repeat
        fa([e, n], z3.Implies(n >= 0, Len(Rep(e, n)) == n), Rep(e, n))
        fa([e, n, i], z3.Implies(z3.And(0 <= i, i < n), Idx(Rep(e, n), i) == e), Idx(Rep(e, n), i))
        # extensionality (triggered on Eq only; the prover introduces Eq for equality goals)
        fa([a, b], Eq(a, b) == z3.And(Len(a) == Len(b),
                                      z3.ForAll([i], z3.Implies(z3.And(0 <= i, i < Len(a)),
                                                                Idx(a, i) == Idx(b, i)),
                                                patterns=[Idx(a, i), Idx(b, i)])),
           Eq(a, b))
        fa([a, b], z3.Implies(Eq(a, b), a == b), Eq(a, b))
        return A


class MapTheory:
    """Finite maps K -> V (Dafny style): Has / Get / Put / Del.  Python dict semantics for
    membership, lookup, store and delete; iteration order is not modelled here."""
    registry = {}

    def __init__(self, name, K, V):
        self.name = name
        self.K, self.V = K, V
        M = z3.DeclareSort(name)
        self.sort = M
        f = lambda n, *s: z3.Function('%s.%s' % (name, n), *s)
        self.Has = f('has', M, K, B)
        self.Get = f('get', M, K, V)
        self.Put = f('put', M, K, V, M)
        self.Del = f('del', M, K, M)
        self.Empty = z3.Const('%s.empty' % name, M)
        self.Eq = f('eq', M, M, B)
        self.Size = f('size', M, I)
        m, m2 = z3.Consts('m m2', M)
        k, k2 = z3.Consts('k k2', K)
        v = z3.Const('v', V)
        Has, Get, Put, Del, Eq = self.Has, self.Get, self.Put, self.Del, self.Eq
        A = []
        A.append(_FA([k], z3.Not(Has(self.Empty, k)), patterns=[Has(self.Empty, k)]))
        A.append(_FA([m, k, v, k2], Has(Put(m, k, v), k2) == z3.Or(k == k2, Has(m, k2)),
                           patterns=[Has(Put(m, k, v), k2)]))
        A.append(_FA([m, k, v, k2], Get(Put(m, k, v), k2) == z3.If(k == k2, v, Get(m, k2)),
                           patterns=[Get(Put(m, k, v), k2)]))
        A.append(_FA([m, k, k2], Has(Del(m, k), k2) == z3.And(k != k2, Has(m, k2)),
                           patterns=[Has(Del(m, k), k2)]))
        A.append(_FA([m, k, k2], z3.Implies(k != k2, Get(Del(m, k), k2) == Get(m, k2)),
                           patterns=[Get(Del(m, k), k2)]))
        A.append(_FA([m, m2], Eq(m, m2) == z3.ForAll([k], z3.And(Has(m, k) == Has(m2, k),
                                                                       z3.Implies(Has(m, k), Get(m, k) == Get(m2, k))),
                                                           patterns=[Has(m, k)]),
                           patterns=[Eq(m, m2)]))
        A.append(_FA([m, m2], z3.Implies(Eq(m, m2), m == m2), patterns=[Eq(m, m2)]))
        Size = self.Size
        A.append(_FA([m], Size(m) >= 0, patterns=[Size(m)]))
        A.append(Size(self.Empty) == 0)
        A.append(_FA([m, k, v], Size(Put(m, k, v)) == Size(m) + z3.If(Has(m, k), 0, 1), patterns=[Size(Put(m, k, v))]))
        A.append(_FA([m, k], Size(Del(m, k)) == Size(m) - z3.If(Has(m, k), 1, 0), patterns=[Size(Del(m, k))]))
        A.append(_FA([m, k], z3.Implies(Has(m, k), Size(m) >= 1), patterns=[z3.MultiPattern(Has(m, k), Size(m))]))
        self.axioms = A
        MapTheory.registry[name] = self


# The sorts shared by the whole engine ----------------------------------------------------
SeqI = SeqTheory('SeqI', I)                # bytes, bytearray, str (code points), list[int]
SeqS = SeqTheory('SeqS', SeqI.sort)        # list of byte strings / strings
Obj = z3.DeclareSort('Obj')                # opaque objects (external library values, callbacks, ...)
SeqO = SeqTheory('SeqO', Obj)
MapSO = MapTheory('MapSO', SeqI.sort, Obj)     # dict: str -> arbitrary object
MapSS = MapTheory('MapSS', SeqI.sort, SeqI.sort)   # dict: str -> str
MapOO = MapTheory('MapOO', Obj, Obj)               # dict / table: arbitrary (boxed) key -> arbitrary object

# byte-range predicate on SeqI
IsBytes = z3.Function('is_bytes', SeqI.sort, B)


def _is_bytes_axioms():
    s, a, b = z3.Consts('s a b', SeqI.sort)
    i, n, e = z3.Ints('i n e')
    T = SeqI
    A = [
        _FA([s, i], z3.Implies(z3.And(IsBytes(s), 0 <= i, i < T.Len(s)),
                                     z3.And(0 <= T.Idx(s, i), T.Idx(s, i) < 256)),
                  prefix='bytes.', patterns=[z3.MultiPattern(IsBytes(s), T.Idx(s, i))]),
        IsBytes(T.Empty),
        _FA([e], IsBytes(T.Unit(e)) == z3.And(0 <= e, e < 256), prefix='bytes.', patterns=[IsBytes(T.Unit(e))]),
        _FA([a, b], IsBytes(T.App(a, b)) == z3.And(IsBytes(a), IsBytes(b)), prefix='bytes.', patterns=[IsBytes(T.App(a, b))]),
        _FA([s, n], z3.Implies(z3.And(IsBytes(s), 0 <= n, n <= T.Len(s)), IsBytes(T.Take(s, n))),
                  prefix='bytes.', patterns=[IsBytes(T.Take(s, n))]),
        _FA([s, n], z3.Implies(z3.And(IsBytes(s), 0 <= n, n <= T.Len(s)), IsBytes(T.Drop(s, n))),
                  prefix='bytes.', patterns=[IsBytes(T.Drop(s, n))]),
        _FA([e, n], z3.Implies(z3.And(0 <= e, e < 256), IsBytes(T.Rep(e, n))), prefix='bytes.', patterns=[IsBytes(T.Rep(e, n))]),
    ]
    return A


BYTES_AXIOMS = _is_bytes_axioms()


MentionI = z3.Function('mention', I, B)      # always true; used to put a term into the E-graph (trigger material)


def base_axioms():
    A = []
    _x = z3.Int('x')
    A.append(_FA([_x], MentionI(_x), patterns=[MentionI(_x)], prefix='mention.'))
    for th in SeqTheory.registry.values():
        A += th.axioms
    for th in MapTheory.registry.values():
        A += th.axioms
    A += BYTES_AXIOMS
    return A
