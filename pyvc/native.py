"""Native side of PyVC: runs the REAL function (CPython, overlay venv) under the *same* sidecar contract.

Used for (1) replay of solver counter-models, (2) the directed bounded search when a model does not
replay, (3) bounded stand-ins.  No z3 here; this file must run under /verif/.venv312/bin/python.

    python -m pyvc.native replay  <replay.json>
    python -m pyvc.native search  <sidecar.py> <file> <qualname> <n> <seed> <out.json>
"""
import ast
import copy
import importlib
import importlib.util
import inspect
import json
import os
import random
import sys
import threading
import traceback

HERE = os.path.dirname(os.path.dirname(os.path.abspath(__file__)))
sys.path.insert(0, HERE)
REPO = os.environ.get('PYVC_REPO', '/repo')
sys.path.insert(0, REPO)

from pyvc import lang          # noqa: E402
import logging                 # noqa: E402
logging.disable(logging.CRITICAL)


class OpaqueRaised(Exception):
    """Raised by an opaque stub when the scenario says this call fails."""

    def __init__(self, name):
        super().__init__('opaque callee %s raised' % name)
        self.name = name


def snap(x):
    """what an event records of an argument: containers by value (they may be mutated later), objects by identity"""
    if isinstance(x, (list, tuple, dict, bytes, bytearray, str, int, bool)) or x is None or hasattr(type(x), '__deepcopy__'):
        return norm(copy.deepcopy(x))
    return x


def norm(v):
    """Normalise run-time values into the spec's universe: sequences of ints / sequences of sequences."""
    if isinstance(v, (bytes, bytearray)):
        return list(v)
    if isinstance(v, str):
        return [ord(c) for c in v]
    if isinstance(v, (list, tuple)):
        return [norm(x) for x in v]
    if isinstance(v, bool) or v is None or isinstance(v, int):
        return v
    if isinstance(v, dict):
        return {k: norm(x) for k, x in v.items()}
    return v


class SpecStr(list):
    """a text / bytes literal of a contract, equal to the same text whether the run-time side was normalised or not"""

    def __init__(self, v):
        super().__init__(norm(v))

    def __eq__(self, o):
        r = list.__eq__(self, norm(o) if isinstance(o, (str, bytes, bytearray)) else o)
        return False if r is NotImplemented else r

    def __ne__(self, o):
        return not self.__eq__(o)

    __hash__ = None


class View:
    """Attribute view of a real object that normalises what it returns (self._read_buffer -> list of ints)."""

    def __init__(self, obj):
        object.__setattr__(self, '_o', obj)

    def __getattr__(self, name):
        o = object.__getattribute__(self, '_o')
        if isinstance(o, dict):
            v = o[name]
        else:
            try:
                v = getattr(o, name)
            except AttributeError:
                # name-mangled private fields
                for k in dir(o):
                    if k.endswith(name) and k.startswith('_'):
                        v = getattr(o, k)
                        break
                else:
                    raise
        return wrap(v)


def wrap(v):
    if isinstance(v, (bytes, bytearray, str, list, tuple, int, bool, dict)) or v is None:
        return norm(v)
    return View(v)


def load_sidecar(path):
    path = os.path.abspath(path)
    name = os.path.relpath(path, HERE)[:-3].replace('/', '.')
    return importlib.import_module(name)


def parse_contract(fn):
    src = inspect.getsource(fn)
    tree = ast.parse(src).body[0]
    clauses = []
    for st in tree.body:
        if isinstance(st, ast.Expr) and isinstance(st.value, ast.Call) and isinstance(st.value.func, ast.Name):
            clauses.append((st.value.func.id, st.value))
    params = [(a.arg, a.annotation) for a in tree.args.args]
    return params, clauses, tree


def ty_of(node, glob):
    if node is None:
        return lang.Any
    return eval(compile(ast.Expression(node), '<ty>', 'eval'), glob)


# ---- building concrete arguments -------------------------------------------------------------------------
def build_value(ty, val, scenario, events):
    n = ty.name
    if val is None and n in ('Int', 'Nat', 'Byte', 'Bool', 'Bytes', 'ByteArray', 'ListInt', 'ListByte', 'SeqInt', 'Str', 'Latin1', 'ListBytes', 'SeqBytes'):
        val = {'Int': 0, 'Nat': 0, 'Byte': 0, 'Bool': False}.get(n, [])        # a field the scenario does not mention
    if n in ('Int', 'Nat', 'Byte'):
        return int(val)
    if n == 'Bool':
        return bool(val)
    if n == 'Bytes':
        return bytes(val)
    if n == 'ByteArray':
        return bytearray(val)
    if n in ('ListInt', 'ListByte', 'SeqInt'):
        return list(val)
    if n in ('Str', 'Latin1'):
        return ''.join(chr(c) for c in val) if not isinstance(val, str) else val
    if n in ('ListBytes', 'SeqBytes'):
        return [bytes(x) for x in val]
    if n == 'NoneT':
        return None
    if n == 'Opt':
        return None if val is None else build_value(ty.args[0], val, scenario, events)
    if n == 'Tup':
        return tuple(build_value(t, v, scenario, events) for t, v in zip(ty.args, val))
    if n == 'Obj':
        return build_object(ty.args[0], val, scenario, events)
    if n in ('Opaque', 'Any', 'Value'):
        if isinstance(val, dict) and '$record' in val:
            return FakeRecord(bytes(val['$record']))
        if isinstance(val, dict) and '$call' in val:
            return eval(val['$call'], {'importlib': importlib})
        if isinstance(val, dict) and '$opaque' in val:
            return OpaqueStub(val['$opaque'] or (ty.args[0] if ty.args else 'obj'), scenario, events)
        return val
    if n == 'Conn':
        p = ConnProxy(ty.args[0], (val or {}).get('rows') if isinstance(val, dict) else None)
        scenario.setdefault('$cleanup', []).append(p)
        return p
    if n == 'DictStrStr':
        if isinstance(val, dict):
            return dict(val)
        return dict((''.join(map(chr, k)) if not isinstance(k, str) else k,
                     ''.join(map(chr, v)) if not isinstance(v, str) else v) for k, v in (val or []))
    if n == 'DictStrObj':
        return dict((''.join(map(chr, k)) if not isinstance(k, str) else k, v) for k, v in (val or []))
    raise ValueError('native: cannot build a value of type %r' % (ty,))


CURRENT_MOD = [None]


class FakeRecord:
    """stand-in for a python-axolotl record: only serialize() is used by the stores when writing"""

    def __init__(self, b):
        self.b = b

    def serialize(self):
        return self.b

    def __deepcopy__(self, memo):
        return self


class OpaqueStub:
    """Stand-in for an object of an external / unverified class: every method call is an event."""

    def __init__(self, label, scenario, events):
        self.__dict__['_l'] = (label, scenario, events)

    def __getattr__(self, name):
        if name.startswith('__'):
            raise AttributeError(name)
        label, scenario, events = self.__dict__['_l']
        return make_stub('%s.%s' % (label, name), scenario, events)

    def __deepcopy__(self, memo):
        return self

    def __bool__(self):
        return True

    def __repr__(self):
        return '<opaque %s>' % self.__dict__['_l'][0]


# ---- sqlite-backed stores: real database, durable state observed through a second connection -------------------------
import inspect as _inspect
import shutil
import sqlite3
import tempfile
import textwrap


def _schema(cname):
    from pyvc.sqlschema import schema_from_source
    cls = find_class(cname)
    return schema_from_source(textwrap.dedent(_inspect.getsource(cls.__init__)))


def _read_table(conn, sch):
    cur = conn.execute('SELECT %s FROM %s ORDER BY rowid' % (', '.join(sch.cols), sch.table))
    out = {}
    for r in cur.fetchall():
        r = tuple(norm(x) if isinstance(x, (bytes, bytearray)) else x for x in r)
        k = tuple(r[sch.idx(c)] for c in sch.unique)
        out[k if len(k) > 1 else k[0]] = r
    return out


class ConnSnapshot:
    def __init__(self, W, D, store):
        self.W, self.D, self.store = W, D, store


class CursorProxy:
    def __init__(self, proxy, cur):
        self._p, self._c = proxy, cur

    def execute(self, *a):
        try:
            r = self._c.execute(*a)
        finally:
            self._p.snap()
        return self

    def fetchone(self):
        return self._c.fetchone()

    def fetchall(self):
        return self._c.fetchall()


class ConnProxy:
    """A real sqlite3 connection; after every statement and commit the DURABLE table state (what a second
    connection sees = what survives a crash at this instant) is recorded."""

    def __init__(self, store, rows):
        self.store = store
        self.sch = _schema(store)
        self.dir = tempfile.mkdtemp(prefix='pyvc_db_')
        self.path = os.path.join(self.dir, 'a.db')
        self.real = sqlite3.connect(self.path, check_same_thread=False)
        self.real.text_factory = bytes
        cls = find_class(store)
        if store == 'LiteIdentityKeyStore':
            # its __init__ also generates and stores the local key pair: create the table only
            for n in ast.walk(ast.parse(textwrap.dedent(_inspect.getsource(cls.__init__)))):
                if isinstance(n, ast.Constant) and isinstance(n.value, str) and n.value.strip().upper().startswith('CREATE'):
                    self.real.execute(n.value)
        else:
            tmp = object.__new__(cls)
            cls.__init__(tmp, self.real)
        for r in rows or []:
            cols = list(r.keys())
            vals = [bytes(v) if isinstance(v, list) else v for v in r.values()]
            self.real.execute('INSERT INTO %s (%s) VALUES (%s)' % (self.sch.table, ', '.join(cols), ', '.join('?' * len(cols))), vals)
        self.real.commit()
        self.observer = sqlite3.connect(self.path)
        self.observer.text_factory = bytes
        self.snapshots = []

    def snap(self):
        self.snapshots.append(_read_table(self.observer, self.sch))

    def cursor(self):
        return CursorProxy(self, self.real.cursor())

    def execute(self, *a):
        return self.cursor().execute(*a)

    def commit(self):
        self.real.commit()
        self.snap()

    def W(self):
        return _read_table(self.real, self.sch)

    def D(self):
        return _read_table(self.observer, self.sch)

    def __deepcopy__(self, memo):
        return ConnSnapshot(self.W(), self.D(), self.store)

    def cleanup(self):
        try:
            self.real.close()
            self.observer.close()
        finally:
            shutil.rmtree(self.dir, ignore_errors=True)


def _b(v):
    return bytes(v) if isinstance(v, list) else v


def db_env(E):
    """native versions of the table-view spec forms of pyvc/sqlmodel.py"""
    def raw(x):
        return object.__getattribute__(x, '_o') if isinstance(x, View) else x

    def db_w(c):
        c = raw(c)
        return dict(c.W) if isinstance(c, ConnSnapshot) else c.W()

    def db_d(c):
        c = raw(c)
        return dict(c.D) if isinstance(c, ConnSnapshot) else c.D()

    def key(store, **kw):
        sch = _schema(store)
        k = tuple(norm(kw[c]) for c in sch.unique)
        return k if len(k) > 1 else k[0]

    def row(store, **kw):
        sch = _schema(store)
        return tuple(norm(kw.get(c)) for c in sch.cols)

    def col(store, r, c):
        return r[_schema(store).idx(c)] if r is not None else None

    def with_col(store, r, c, v):
        sch = _schema(store)
        r = list(r)
        r[sch.idx(c)] = norm(v)
        return tuple(r)

    def map_put(m, k, v):
        m = dict(m)
        m[k] = v
        return m

    def map_del(m, k):
        m = dict(m)
        m.pop(k, None)
        return m

    def getter(name, obj):
        o = raw(obj)
        return norm(getattr(o, name.split('.')[-1])())

    def pure_call(q, *args):
        mod, _, cname = q.rpartition('.')
        cls = getattr(importlib.import_module(mod), cname)
        return cls(*[_b(a) for a in args])

    def attr(n, k):
        if raw(n) is None:
            return None
        return norm(raw(n).getAttributeValue(''.join(map(chr, k)) if isinstance(k, list) else k))

    def pure_child(n, tag):
        c = raw(n).getChild(''.join(map(chr, tag)) if isinstance(tag, list) else tag)
        return None if c is None else wrap(c)

    def n_children(n):
        return len(raw(n).children or [])

    def child(n, i):
        return wrap(raw(n).children[i])

    def same_obj(a, b):
        a, b = raw(a), raw(b)
        if hasattr(a, 'serialize') and hasattr(b, 'serialize'):
            return a.serialize() == b.serialize()
        return a is b or norm(a) == norm(b)

    def at_every_db_event(c, pred):
        c = raw(c)
        return all(pred(d) for d in c.snapshots)
    return {
        'db_w': db_w, 'db_d': db_d, 'key': key, 'row': row, 'col': col, 'with_col': with_col,
        'col_is': lambda store, r, c, v: col(store, r, c) == norm(v), 'col_is_null': lambda store, r, c: col(store, r, c) is None,
        'map_put': map_put, 'map_del': map_del, 'map_get': lambda m, k: m.get(k), 'map_eq': lambda a, b: a == b,
        'contains_key': lambda m, k: k in m, 'getter': getter, 'pure_call': pure_call, 'same_obj': same_obj,
        'at_every_db_event': at_every_db_event, 'rows_all': lambda m: list(m.values()),
        'rows_unsent': lambda m: [r for r in m.values() if r[1] is None or r[1] == 0],
        'max_key': lambda m: max(m.keys()) if m else None,
        'attr': attr, 'n_children': n_children, 'child': child, 'pure_child': pure_child,
    }


def find_class(cname):
    if CURRENT_MOD[0] is not None and isinstance(getattr(CURRENT_MOD[0], cname, None), type):
        return getattr(CURRENT_MOD[0], cname)
    decl = lang.REGISTRY['fields'].get(cname, {})
    f = decl.get('__file__')
    cands = []
    if f is not None:
        cands.append(f)
    for (file, qual) in list(lang.REGISTRY['contracts']) + list(lang.REGISTRY['opaques']):
        if qual.split('.')[0] == cname:
            cands.append(file)
    for file in cands:
        m = importlib.import_module(file[:-3].replace('/', '.').replace('.__init__', ''))
        if hasattr(m, cname):
            return getattr(m, cname)
    raise ValueError('native: class %s not found' % cname)


def build_node(cls, val):
    return cls(val['tag'], dict(val.get('attributes') or {}), [build_node(cls, c) for c in (val.get('children') or [])],
               None if val.get('data') is None else bytes(val['data']))


def build_object(cname, val, scenario, events):
    cls = find_class(cname)
    if cname == 'ProtocolTreeNode' and isinstance(val, dict) and 'tag' in val:
        return build_node(cls, val)       # the real constructor, recursively
    obj = object.__new__(cls)
    if val is None:
        val = {}
    decl = lang.REGISTRY['fields'].get(cname, {})
    for f, ty in decl.items():
        if f.startswith('__') and f.endswith('__'):
            continue
        setattr(obj, f, build_value(ty, (val or {}).get(f), scenario, events))
    install_stubs(obj, scenario, events)
    return obj


class CalleePreconditionViolated(BaseException):
    """A stubbed callee that is itself under contract was called in a state that its `requires` excludes (the native counterpart of
    the prover's `pre:` obligation).  BaseException: it must not be swallowed by an `except Exception` of the code under test."""

    def __init__(self, qual, clause):
        super().__init__('%s called with its precondition false: %s' % (qual, clause))
        self.qual, self.clause = qual, clause


def _with_precheck(stub, obj, file, qual, events):
    fn = lang.REGISTRY['contracts'].get((file, qual))
    if fn is None:
        return stub
    try:
        params, clauses, _ = parse_contract(fn)
    except Exception:
        return stub
    reqs = [c for kind, c in clauses if kind == 'requires']
    if not reqs:
        return stub

    def checked(*a, **kw):
        try:
            names = [p for p, _ in params]
            vals = dict(zip(names, (obj,) + tuple(a)))
            vals.update({k: v for k, v in kw.items() if k in names})
            if len(vals) == len(names):
                pa = {p: _plain(v) for p, v in vals.items()}
                E0 = Evaluator(CURRENT_MOD[0], params, pa, pa, events)
                for c in reqs:
                    ok = True
                    try:
                        ok = bool(E0.ev(c.args[0], 'pre'))
                    except Exception:
                        ok = True           # unevaluable: no verdict
                    if not ok:
                        raise CalleePreconditionViolated(qual, ast.unparse(c.args[0])[:160])
        except CalleePreconditionViolated:
            raise
        except Exception:
            pass
        return stub(*a, **kw)
    return checked


def install_stubs(obj, scenario, events):
    for (file, qual), kw in lang.REGISTRY['opaques'].items():
        cname, mname = qual.split('.')
        if any(k.__name__ == cname for k in type(obj).__mro__):
            ev = kw.get('event', mname)
            setattr(obj, mname, _with_precheck(make_stub(ev, scenario, events), obj, file, qual, events))


def install_class_stubs(objs, scenario, events):
    """Opaque callees that are not methods of an argument (static constructors such as X.fromProtocolTreeNode, methods of
    other repository classes): record the event and call through to the real code unless the scenario fixes the result."""
    undo = []
    for (file, qual), kw in lang.REGISTRY['opaques'].items():
        if '.' not in qual:
            continue
        cname, mname = qual.split('.')
        if any(any(k.__name__ == cname for k in type(o).__mro__) for o in objs):
            continue
        try:
            m = importlib.import_module(file[:-3].replace('/', '.').replace('.__init__', ''))
            cls = getattr(m, cname)
            orig = inspect.getattr_static(cls, mname)
        except Exception:
            continue
        ev = kw.get('event', mname)

        def mk(cls, mname, orig, ev):
            bound = getattr(cls, mname)
            is_plain = not isinstance(orig, (staticmethod, classmethod))

            def stub(*a, **kws):
                k = sum(1 for e in events if e[0] == ev)
                rs = scenario.get('opaque_results', {}).get(ev)
                rec_args = a[1:] if is_plain else a
                if k in scenario.get('raises_at', {}).get(ev, []):
                    events.append((ev, [snap(x) for x in rec_args], None))
                    raise OpaqueRaised(ev)
                if rs is not None and k < len(rs):
                    res = rs[k]
                    if isinstance(res, dict) and '$opaque' in res:
                        res = OpaqueStub(res['$opaque'], scenario, events)
                else:
                    try:
                        res = bound(*a, **kws)
                    except Exception:
                        # the contract treats any exception of an opaque callee as propagated from that call
                        events.append((ev, [snap(x) for x in rec_args], None))
                        raise OpaqueRaised(ev)
                events.append((ev, [snap(x) for x in rec_args], res))
                return res
            return stub if is_plain else staticmethod(stub)
        setattr(cls, mname, mk(cls, mname, orig, ev))
        undo.append((cls, mname, orig))
    return undo


def make_stub(ev, scenario, events):
    def stub(*a, **kw):
        k = sum(1 for e in events if e[0] == ev)
        res = None
        rs = scenario.get('opaque_results', {}).get(ev)
        if rs is not None and k < len(rs):
            res = rs[k]
            if isinstance(res, dict) and '$opaque' in res:
                res = OpaqueStub(res['$opaque'], scenario, events)
        events.append((ev, [snap(x) for x in a], res))
        if k in scenario.get('raises_at', {}).get(ev, []):
            raise OpaqueRaised(ev)
        return res
    return stub


# ---- contract evaluation ----------------------------------------------------------------------------------
class Evaluator:
    def __init__(self, mod, params, pre_args, post_args, events, result=None, exc=None):
        self.mod = mod
        self.events = events
        self.pre = {p: wrap(v) for p, v in pre_args.items()}
        self.post = {p: wrap(v) for p, v in post_args.items()}
        self.result = wrap(result)
        self.exc = exc

    def env(self, which):
        e = dict(vars(self.mod))
        e.update({
            'implies': lambda a, b: (not a) or b,
            'iff': lambda a, b: bool(a) == bool(b),
            'truthy': bool, 'is_none': lambda x: x is None,
            'events': lambda name: [x[1][0] for x in self.events if x[0] == name],
            'n_events': lambda name: sum(1 for x in self.events if x[0] == name),
            'event_result': lambda name, k: [x[2] for x in self.events if x[0] == name][k],
            'event_arg': lambda name, k, j=0: [x[1] for x in self.events if x[0] == name][k][j],
            'event_names': lambda: [x[0] for x in self.events],
            'forall': lambda rng, pred, **kw: all(pred(i) for i in rng),
            'exists': lambda rng, pred, **kw: any(pred(i) for i in rng),
            'is_bytes': lambda s: all(isinstance(x, int) and 0 <= x < 256 for x in s),
            'seq_eq': lambda a, b: a == b, 'mention': lambda x: True,
            'contains_key': lambda d, k: (''.join(map(chr, k)) if isinstance(k, list) else k) in d,
            'map_eq': lambda a, b: a == b,
            'exc_origin': lambda: getattr(self.exc, 'name', ''),
            'result': self.result,
        })
        dbe = db_env(self)
        e.update(dbe)
        for k_, v_ in dbe.items():          # spec functions defined in the sidecar call these as module globals
            if not hasattr(self.mod, k_) or getattr(getattr(self.mod, k_), '__module__', '') != self.mod.__name__:
                setattr(self.mod, k_, v_)
        e.update(self.pre if which == 'pre' else self.post)
        return e

    def expand_helpers(self, node, depth=0):
        """Sidecar helper functions (plain `return expr` functions) are macros of the contract language: expand them, so
        that old(...) inside a helper refers to the pre-state exactly as it does for the prover."""
        mod = self.mod
        ev = self

        class X(ast.NodeTransformer):
            def visit_Call(s, n):
                n = s.generic_visit(n)
                if isinstance(n.func, ast.Name) and depth < 12:
                    f = getattr(mod, n.func.id, None)
                    if inspect.isfunction(f) and f.__module__ == mod.__name__ and n.func.id not in lang.REGISTRY['specs'] \
                            and not n.func.id.startswith(('gen_', '_')):
                        try:
                            fd = ast.parse(textwrap.dedent(inspect.getsource(f))).body[0]
                        except Exception:
                            return n
                        body = [st for st in fd.body if not (isinstance(st, ast.Expr) and isinstance(st.value, ast.Constant))]
                        if len(body) == 1 and isinstance(body[0], ast.Return) and not fd.decorator_list:
                            params = [a.arg for a in fd.args.args]
                            if len(params) == len(n.args) and not n.keywords:
                                sub = dict(zip(params, n.args))

                                class S(ast.NodeTransformer):
                                    def visit_Name(s2, nn):
                                        return copy.deepcopy(sub[nn.id]) if nn.id in sub else nn
                                return ev.expand_helpers(S().visit(copy.deepcopy(body[0].value)), depth + 1)
                return n
        return X().visit(node)

    def ev(self, node, which='post'):
        node = copy.deepcopy(node)
        node = self.expand_helpers(node)
        olds = {}

        class T(ast.NodeTransformer):
            def visit_Call(s, n):
                if isinstance(n.func, ast.Name) and n.func.id == 'old':
                    k = '__old_%d' % len(olds)
                    olds[k] = self.ev(n.args[0], 'pre')
                    return ast.copy_location(ast.Name(id=k, ctx=ast.Load()), n)
                return s.generic_visit(n)
        node = T().visit(node)

        class C(ast.NodeTransformer):
            # implies(a, b) is lazy in b (b may mention an event that exists only when a holds)
            def visit_Call(s, n):
                n = s.generic_visit(n)
                if isinstance(n.func, ast.Name) and n.func.id == 'implies' and len(n.args) == 2:
                    return ast.BoolOp(op=ast.Or(), values=[ast.UnaryOp(op=ast.Not(), operand=n.args[0]), n.args[1]])
                return n

            # text literals compared with run-time text: both sides live in the spec universe (sequences of code points)
            def visit_Compare(s, n):
                n = s.generic_visit(n)
                def cv(x):
                    if isinstance(x, ast.Constant) and isinstance(x.value, (str, bytes)):
                        return ast.Call(func=ast.Name(id='__S', ctx=ast.Load()), args=[x], keywords=[])
                    return x
                if all(isinstance(o, (ast.Eq, ast.NotEq)) for o in n.ops):
                    n.left = cv(n.left)
                    n.comparators = [cv(c) for c in n.comparators]
                return n
        node = C().visit(node)
        ast.fix_missing_locations(node)
        env = self.env(which)
        env['__S'] = SpecStr
        env.update(olds)
        return eval(compile(ast.Expression(node), '<contract>', 'eval'), env)


def run_case(mod, file, qualname, scenario):
    try:
        return _run_case(mod, file, qualname, scenario)
    finally:
        for p in scenario.pop('$cleanup', []):
            try:
                p.cleanup()
            except Exception:
                pass


def _run_case(mod, file, qualname, scenario):
    """Run the real function on one concrete scenario and judge it by the contract.  Returns a dict."""
    fn = lang.REGISTRY['contracts'][(file, qualname)]
    params, clauses, tree = parse_contract(fn)
    events = []
    CURRENT_MOD[0] = mod
    glob = vars(mod)
    args = {}
    for p, ann in params:
        ty = ty_of(ann, glob)
        args[p] = build_value(ty, scenario['inputs'].get(p), scenario, events)
    pre_args = copy.deepcopy({p: _plain(v) for p, v in args.items()})
    rmod = importlib.import_module(file[:-3].replace('/', '.').replace('.__init__', ''))
    if '.' in qualname:
        c, m = qualname.split('.')
        func = getattr(getattr(rmod, c), m)
        func = inspect.getattr_static(getattr(rmod, c), m)
        if isinstance(func, staticmethod):
            func = func.__func__
    else:
        func = getattr(rmod, qualname)
    ev0 = Evaluator(mod, params, pre_args, pre_args, events)
    for kind, c in clauses:
        if kind == 'requires':
            try:
                if not ev0.ev(c.args[0], 'pre'):
                    return {'status': 'precondition-false'}
            except Exception as e:
                return {'status': 'precondition-error', 'error': repr(e)}
    result, exc = None, None
    undo = install_class_stubs(list(args.values()), scenario, events)
    try:
        result = func(*[args[p] for p, _ in params])
    except BaseException as e:       # noqa
        exc = e
    finally:
        for cls_, m_, orig_ in undo:
            setattr(cls_, m_, orig_)
    post_args = {p: _plain(v) for p, v in args.items()}
    E = Evaluator(mod, params, pre_args, post_args, events, result, exc)
    out = {'status': 'ok', 'events': [[e[0], _json(e[1])] for e in events][:20],
           'result': _json(norm(result)) if not isinstance(result, object) or isinstance(result, (int, bytes, bytearray, str, list, tuple, type(None))) else repr(result),
           'exception': None if exc is None else '%s: %s' % (type(exc).__name__, str(exc)[:200])}
    failed = []
    unevaluable = []        # clauses the native evaluator cannot compute: never evidence of a violation

    def chk(label, node, which='post'):
        try:
            ok = bool(E.ev(node, which))
        except Exception as e:
            unevaluable.append('%s: evaluation error %r' % (label, e))
            return
        if not ok:
            failed.append('%s: %s' % (label, ast.unparse(node)[:300]))
    if exc is None:
        k = 0
        for kind, c in clauses:
            if kind == 'ensures':
                k += 1
                chk('post#%d' % k, c.args[0])
        k = 0
        for kind, c in clauses:
            if kind == 'raises':
                k += 1
                kw = {x.arg: x.value for x in c.keywords}
                if 'when' in kw and 'may' not in kw:
                    try:
                        if E.ev(kw['when'], 'pre'):
                            failed.append('raises#%d:must-raise: %s held but the call returned normally' % (k, ast.unparse(kw['when'])))
                    except Exception as e:
                        unevaluable.append('raises#%d: evaluation error %r' % (k, e))
    else:
        matched = False
        if isinstance(exc, OpaqueRaised):
            k = 0
            for kind, c in clauses:
                if kind == 'propagates':
                    k += 1
                    if c.args[0].value in (exc.name, '*'):
                        matched = True
                        kw = {x.arg: x.value for x in c.keywords}
                        if 'ensures' in kw:
                            chk('propagates#%d:ensures' % k, kw['ensures'])
        else:
            k = 0
            for kind, c in clauses:
                if kind == 'raises':
                    k += 1
                    nm = ast.unparse(c.args[0]).split('.')[-1]
                    if any(b.__name__ == nm for b in type(exc).__mro__):
                        matched = True
                        kw = {x.arg: x.value for x in c.keywords}
                        if 'when' in kw:
                            chk('raises#%d:only-when' % k, kw['when'], 'pre')
                        if 'ensures' in kw:
                            chk('raises#%d:ensures' % k, kw['ensures'])
                        break
        if isinstance(exc, CalleePreconditionViolated):
            matched = True
            failed.append('pre:%s: %s' % (exc.qual, exc.clause))
        if not matched:
            why = _harness_artifact(exc)
            if why:
                # the exception comes from the harness, not from the code under contract: never a verdict
                unevaluable.append('no-unexpected-exception: %s: %s (%s)' % (type(exc).__name__, str(exc)[:200], why))
            else:
                failed.append('no-unexpected-exception: %s: %s' % (type(exc).__name__, str(exc)[:200]))
    out['failed'] = failed
    out['unevaluable'] = unevaluable
    out['status'] = 'contract-violated' if failed else ('contract-unevaluable' if unevaluable else 'contract-holds')
    return out


def _declared_events():
    R = lang.REGISTRY
    evs = set()
    for kw in R['opaques'].values():
        if kw.get('event'):
            evs.add(kw['event'])
    for name, kw in R['externs'].items():
        evs.add(kw.get('event', name))
        evs.add(name)
    for (file, qual) in R['contracts']:
        evs.add(qual)
    return evs


def _is_standin_class(cname):
    for mn, mod in list(sys.modules.items()):
        if mod is not None and (mn.startswith('contracts.') or mn.startswith('pyvc.') or mn.startswith('spec.')):
            c = getattr(mod, cname, None)
            if isinstance(c, type) and getattr(c, '__module__', '') == mn:
                return True
    return False


def _harness_artifact(exc):
    """reason when an exception escaping the function under contract was produced by the harness itself:
    (a) a raise injected at a callee the sidecar does not declare (the prover models an undeclared external call as one that may
        raise; replaying that choice says nothing about the real callee);
    (b) a TypeError / AttributeError raised inside a stand-in of the harness (a stub that lacks a method or a parameter)."""
    if isinstance(exc, OpaqueRaised):
        if exc.name not in _declared_events():
            return 'raise injected at the undeclared callee %s' % exc.name
        return None
    if isinstance(exc, (TypeError, AttributeError)):
        tb = exc.__traceback__
        last = None
        while tb is not None:
            last = tb
            tb = tb.tb_next
        if last is not None:
            fn = last.tb_frame.f_code.co_filename
            if fn.startswith(HERE) or '/pyvc/' in fn or '/contracts/' in fn:
                return 'raised inside the harness stand-in %s:%s' % (os.path.basename(fn), last.tb_frame.f_code.co_name)
            # a call INTO a stand-in with the wrong arity is raised in the caller's frame
            if isinstance(exc, TypeError) and ('positional argument' in str(exc) or 'unexpected keyword' in str(exc)):
                import re as _re
                m = _re.match(r'(\w+)\.(\w+)\(\)', str(exc))
                if m and _is_standin_class(m.group(1)):
                    return 'call of the harness stand-in %s.%s with an arity it does not model' % (m.group(1), m.group(2))
    return None


def _plain(v):
    return v


def _json(v):
    try:
        json.dumps(v)
        return v
    except Exception:
        return repr(v)[:200]


def cmd_replay(path):
    with open(path) as f:
        rp = json.load(f)
    mod = load_sidecar(os.path.join(HERE, rp['sidecar']))
    res = run_case(mod, rp['function'][0], rp['function'][1], rp['scenario'])
    rp['native'] = res
    with open(path, 'w') as f:
        json.dump(rp, f, indent=1)
    print('REPLAY %s: %s' % (rp.get('obligation'), res['status']))
    for x in res.get('failed', []):
        print('  failed:', x)
    return 0 if res['status'] != 'contract-violated' else 1


# ---- type-directed generator: the fallback when a sidecar has no gen_<name> for a function ----------------------------------
def _literals(mod, fn):
    """text constants the contract (and the helpers it uses) mentions: tags, attribute names and values worth trying"""
    pool, seen = set(), set()

    def scan(f):
        if f in seen:
            return
        seen.add(f)
        try:
            tree = ast.parse(textwrap.dedent(inspect.getsource(f)))
        except Exception:
            return
        for n in ast.walk(tree):
            if isinstance(n, ast.Constant) and isinstance(n.value, str) and 0 < len(n.value) < 60 and '\n' not in n.value:
                pool.add(n.value)
            if isinstance(n, ast.Name):
                g = getattr(mod, n.id, None)
                if inspect.isfunction(g) and g.__module__ == mod.__name__ and not n.id.startswith('gen_'):
                    scan(g)
                elif isinstance(g, str) and 0 < len(g) < 80:
                    pool.add(g)
    scan(fn)
    return sorted(pool)


def _rand(ty, rng, pool, depth=0):
    n = ty.name
    text = lambda: rng.choice(pool + ['', 'x', '1', 'a@s.whatsapp.net', '49-1@g.us']) if pool else rng.choice(['', 'x', '1'])
    if n in ('Int', 'Nat'):
        return rng.choice([0, 1, 2, 3, 5, 100, 255, 256, 65536, -1] if n == 'Int' else [0, 1, 2, 3, 5, 100, 255, 256, 65536])
    if n == 'Byte':
        return rng.randrange(256)
    if n == 'Bool':
        return rng.random() < 0.5
    if n in ('Bytes', 'ByteArray', 'ListByte'):
        return [rng.randrange(256) for _ in range(rng.choice([0, 1, 2, 5, 17]))]
    if n in ('ListInt', 'SeqInt', 'IntSeq'):
        return [rng.choice([0, 1, 7, 255, 300]) for _ in range(rng.choice([0, 1, 3]))]
    if n in ('Str', 'Latin1'):
        return text()
    if n in ('ListBytes', 'SeqBytes', 'SeqStr'):
        return [[ord(c) for c in text()] for _ in range(rng.choice([0, 1, 3]))]
    if n == 'NoneT':
        return None
    if n == 'Opt':
        return None if rng.random() < 0.3 else _rand(ty.args[0], rng, pool, depth)
    if n == 'Tup':
        return [_rand(t, rng, pool, depth) for t in ty.args]
    if n in ('Opaque', 'Callback'):
        return {'$opaque': (ty.args[0] if ty.args else ('callback' if n == 'Callback' else 'obj'))}
    if n in ('Value', 'Any'):
        return rng.choice([None, 0, 1, text(), {'$opaque': ty.args[0] if ty.args else 'value'}])
    if n == 'Obj':
        cname = ty.args[0]
        if cname == 'ProtocolTreeNode':
            keys = [k for k in pool if k.isidentifier() or '-' in k or ':' in k][:40]
            attrs = {k: text() for k in rng.sample(keys, min(len(keys), rng.randrange(0, 6)))} if keys else {}
            kids = [] if depth >= 2 else [_rand(ty, rng, pool, depth + 1) for _ in range(rng.choice([0, 0, 1, 2]))]
            data = None if kids or rng.random() < 0.6 else [rng.randrange(256) for _ in range(rng.choice([0, 1, 8]))]
            return {'tag': rng.choice(pool) if pool and rng.random() < 0.8 else 'x', 'attributes': attrs, 'children': kids, 'data': data}
        decl = lang.REGISTRY['fields'].get(cname, {})
        if depth >= 3:
            return {}
        return {f: _rand(t, rng, pool, depth + 1) for f, t in decl.items() if not (f.startswith('__') and f.endswith('__'))}
    if n in ('ListObj', 'TupleObj', 'SeqObj'):
        return [{'$opaque': ty.args[0] if ty.args else 'item'} for _ in range(rng.choice([0, 1, 2, 5]))]
    if n == 'DictStrObj':
        return [[text(), {'$opaque': ty.args[0] if ty.args else 'value'}] for _ in range(rng.choice([0, 1, 3]))]
    if n == 'DictStrStr':
        return [[text(), text()] for _ in range(rng.choice([0, 1, 3]))]
    raise ValueError('auto generator: no values for type %r' % (ty,))


def auto_gen(mod, fn, rng, n):
    """scenarios drawn from the parameter types and the text constants of the contract (a weak, generic stand-in: many draws fail
    the precondition and are discarded; what remains is evaluated like any hand-written scenario)"""
    params, clauses, tree = parse_contract(fn)
    glob = vars(mod)
    pool = _literals(mod, fn)
    rets = {}
    for reg in (lang.REGISTRY['opaques'], lang.REGISTRY['externs']):
        for key, kw in reg.items():
            if isinstance(kw, dict) and kw.get('returns') is not None:
                name = kw.get('event') or (key[1].split('.')[-1] if isinstance(key, tuple) else key)
                rets[name] = kw['returns']
    for it in range(n):
        inputs = {p: _rand(ty_of(ann, glob), rng, pool) for p, ann in params}
        results = {}
        for ev, ty in rets.items():
            try:
                results[ev] = [_rand(ty, rng, pool) for _ in range(4)]
            except ValueError:
                pass
        sc = {'inputs': inputs, 'opaque_results': results, 'raises_at': {}}
        if rets and rng.random() < 0.1:
            sc['raises_at'] = {rng.choice(sorted(rets)): [0]}
        yield sc


def cmd_search(sidecar, file, qualname, n, seed, out):
    """Directed bounded search: the sidecar's generator gen_<name>(rng) yields scenarios."""
    mod = load_sidecar(os.path.join(HERE, sidecar))
    fn = lang.REGISTRY['contracts'][(file, qualname)]
    gen = getattr(mod, 'gen_' + fn.__name__, None)
    res = {'evaluations': 0, 'valid': 0, 'violations': [], 'distinct': 0, 'samples': []}
    if gen is None and os.environ.get('PYVC_AUTOGEN') == '1':
        # experimental, off by default: draws are often ill-typed (a registry value that is not a triple), so neither its passes nor
        # its failures are used for a verdict
        res['generator'] = 'type-directed (no gen_%s in %s)' % (fn.__name__, sidecar)
        gen = lambda rng_, n_: auto_gen(mod, fn, rng_, n_)
    if gen is None:
        res['error'] = 'no generator gen_%s in %s' % (fn.__name__, sidecar)
    else:
        rng = random.Random(int(seed))
        seen = set()
        for k, sc in enumerate(gen(rng, int(n))):
            res['evaluations'] += 1
            try:
                r = run_case(mod, file, qualname, sc)
            except Exception as e:
                res.setdefault('harness_errors', []).append(repr(e)[:200])
                if len(res['harness_errors']) > 20:
                    break
                continue
            if r['status'] in ('precondition-false', 'precondition-error', 'contract-unevaluable'):
                continue
            res['valid'] += 1
            key = json.dumps(sc, sort_keys=True, default=str)
            if key not in seen:
                seen.add(key)
            if len(res['samples']) < 3:
                res['samples'].append({'scenario': _short(sc), 'outcome': r['status']})
            if r['status'] == 'contract-violated':
                res['violations'].append({'scenario': sc, 'native': r})
                if len(res['violations']) >= 3:
                    break
        res['distinct'] = len(seen)
    with open(out, 'w') as f:
        json.dump(res, f, indent=1, default=str)
    return 0


def cmd_searchall(sidecar, tier, seed, out):
    """Bounded stand-in / cross-check: every contract of the sidecar that has a generator, at the tier's bound."""
    mod = load_sidecar(os.path.join(HERE, sidecar))
    n = {'quick': 150, 'thorough': 3000}.get(tier, 150)
    res = {'evaluations': 0, 'distinct': 0, 'violations': [], 'samples': [], 'sections': {}}
    for (file, qualname), fn in list(lang.REGISTRY['contracts'].items()):
        gen = getattr(mod, 'gen_' + fn.__name__, None)
        if gen is None or file == '<ext>':
            continue
        rng = random.Random(int(seed) * 7919 + len(qualname))
        sec = res['sections'].setdefault(qualname, {'n': 0, 'bad': 0, 'valid': 0})
        seen = set()
        for sc in gen(rng, n):
            res['evaluations'] += 1
            sec['n'] += 1
            r = run_case(mod, file, qualname, sc)
            if r['status'] in ('precondition-false', 'precondition-error', 'contract-unevaluable'):
                continue
            sec['valid'] += 1
            seen.add(json.dumps(sc, sort_keys=True, default=str))
            if len(res['samples']) < 3 and sec['valid'] == 1:
                res['samples'].append({'function': qualname, 'scenario': _short(sc), 'outcome': r['status']})
            if r['status'] == 'contract-violated':
                sec['bad'] += 1
                if len(res['violations']) < 10:
                    res['violations'].append({'class': qualname + ':' + (r['failed'][0].split(':')[0] if r['failed'] else '?'),
                                              'function': [file, qualname], 'sidecar': sidecar, 'scenario': sc, 'native': r})
        res['distinct'] += len(seen)
    with open(out, 'w') as f:
        json.dump(res, f, indent=1, default=str)
    return 1 if res['violations'] else 0


def _short(sc):
    s = json.dumps(sc, default=str)
    return s if len(s) < 400 else s[:400] + '...'


def main():
    sys.setrecursionlimit(200000)
    threading.stack_size(512 * 1024 * 1024)
    rc = [0]

    def go():
        try:
            if sys.argv[1] == 'replay':
                rc[0] = cmd_replay(sys.argv[2])
            elif sys.argv[1] == 'search':
                rc[0] = cmd_search(*sys.argv[2:8])
            elif sys.argv[1] == 'searchall':
                rc[0] = cmd_searchall(*sys.argv[2:6])
            else:
                print('usage')
                rc[0] = 3
        except Exception:
            traceback.print_exc()
            rc[0] = 3
    t = threading.Thread(target=go)
    t.start()
    t.join()
    sys.exit(rc[0])


if __name__ == '__main__':
    main()
