"""Symbolic value model of PyVC."""
import z3
from . import theory as T


class V:
    pass


class VInt(V):
    def __init__(self, t):
        self.t = z3.IntVal(t) if isinstance(t, int) else t

    def __repr__(self):
        return 'VInt(%s)' % self.t

    def const(self):
        s = z3.simplify(self.t)
        return s.as_long() if z3.is_int_value(s) else None


class VBool(V):
    def __init__(self, t):
        self.t = z3.BoolVal(t) if isinstance(t, bool) else t

    def __repr__(self):
        return 'VBool(%s)' % self.t

    def const(self):
        s = z3.simplify(self.t)
        if z3.is_true(s):
            return True
        if z3.is_false(s):
            return False
        return None


class VNone(V):
    def __repr__(self):
        return 'VNone'


NONE = VNone()


class VSeq(V):
    """Immutable sequence value.  kind: 'str' | 'bytes' | 'list' | 'tuple' | 'bytearray'.
    (list / bytearray values only occur as the *content* of a heap cell.)"""

    def __init__(self, t, kind, th=None, ekind=None):
        self.t = t
        self.kind = kind
        self.th = th or T.SeqI
        self.ekind = ekind      # kind of the elements when th is SeqS ('bytes' / 'str')

    def __repr__(self):
        return 'VSeq[%s](%s)' % (self.kind, self.t)

    def with_term(self, t):
        return VSeq(t, self.kind, self.th, self.ekind)


class VTuple(V):
    """Concrete-length heterogeneous tuple."""

    def __init__(self, items):
        self.items = list(items)

    def __repr__(self):
        return 'VTuple(%r)' % (self.items,)


class VRef(V):
    def __init__(self, loc):
        self.loc = loc

    def __repr__(self):
        return 'VRef(%d)' % self.loc


class VOpt(V):
    """Either None (is_none) or val."""

    def __init__(self, is_none, val):
        self.is_none = is_none
        self.val = val

    def __repr__(self):
        return 'VOpt(%s, %r)' % (self.is_none, self.val)


class VMap(V):
    """Immutable map value (content of a heap dict cell)."""

    def __init__(self, t, th, kkind='str', vkind='str'):
        self.t = t
        self.th = th
        self.kkind, self.vkind = kkind, vkind


class VOpaque(V):
    """Value of the uninterpreted sort Obj (external objects, callables of unknown body, ...)."""

    def __init__(self, t, label=''):
        self.t = t
        self.label = label

    def __repr__(self):
        return 'VOpaque(%s)' % self.t


class VType(V):
    """A Python type object as far as `type(x) is T`, `isinstance` need it."""

    def __init__(self, name):
        self.name = name

    def __repr__(self):
        return 'VType(%s)' % self.name


class VClass(V):
    def __init__(self, info):
        self.info = info

    def __repr__(self):
        return 'VClass(%s)' % self.info.name


class VFunc(V):
    """A repo function / method, possibly bound."""

    def __init__(self, finfo, self_val=None):
        self.finfo = finfo
        self.self_val = self_val

    def __repr__(self):
        return 'VFunc(%s)' % self.finfo.qualname


class VClosure(V):
    def __init__(self, node, env, frame):
        self.node = node        # ast.Lambda or FunctionDef
        self.env = env
        self.frame = frame


class VBuiltin(V):
    def __init__(self, name, self_val=None):
        self.name = name
        self.self_val = self_val

    def __repr__(self):
        return 'VBuiltin(%s)' % self.name


class VModule(V):
    def __init__(self, name):
        self.name = name


class VSpecFunc(V):
    def __init__(self, spec):
        self.spec = spec


class VExc(V):
    """Exception instance: class name + (unused) args.  cls 'opaque:<callee>' for an exception of
    unknown class coming out of an opaque callee."""

    def __init__(self, cls, args=(), origin=None, msg=None):
        self.cls = cls
        self.args = list(args)
        self.origin = origin
        self.msg = msg

    def __repr__(self):
        return 'VExc(%s)' % self.cls


# ---- heap cells --------------------------------------------------------------------------
class HList:
    """Mutable list / bytearray.  content: VSeq (symbolic) or python list of V (concrete length)."""

    def __init__(self, content, kind='list'):
        self.content = content
        self.kind = kind


class HObj:
    def __init__(self, cls, fields, extname=None):
        self.cls = cls          # ClassInfo or None
        self.fields = dict(fields)
        self.extname = extname

    def set(self, name, v):
        f = dict(self.fields)
        f[name] = v
        return HObj(self.cls, f, self.extname)


class HDict:
    """Mutable dict.  content: VMap (symbolic) or python list of (key V, value V) with concrete keys."""

    def __init__(self, content):
        self.content = content
