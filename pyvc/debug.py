"""Debug helper: load a dumped VC and try sub-goals.  python3-vt -i -m pyvc.debug file.smt2"""
import sys, time, z3
z3.set_param('auto_config', False); z3.set_param('smt.mbqi', False)
from . import theory as T
S = T.SeqI; SS = T.SeqS

class VC:
    def __init__(self, path):
        base = z3.Solver(); base.from_file(path)
        self.A = list(base.assertions())
        self.goal = z3.Not(self.A[-1]) if not z3.is_not(self.A[-1]) else self.A[-1].arg(0)
        self.A = self.A[:-1]
        self.decls = {}
        self.consts = {}
        def walk(x, seen=set()):
            if x.get_id() in seen: return
            seen.add(x.get_id())
            if z3.is_app(x):
                self.decls[x.decl().name()] = x.decl()
                if x.num_args() == 0 and x.decl().kind() == z3.Z3_OP_UNINTERPRETED:
                    self.consts[x.decl().name()] = x
                for c in x.children(): walk(c)
            elif z3.is_quantifier(x): walk(x.body())
        for a in self.A: walk(a)
        walk(self.goal)
    def f(self, name): return self.decls[name]
    def c(self, name): return self.consts[name]
    def run(self, goal, label='', extra=(), timeout=5000):
        s = z3.SimpleSolver(); s.set('timeout', timeout)
        s.add(*self.A); s.add(*extra); s.add(z3.Not(goal))
        t = time.time(); r = s.check(); print(label, r, '%.2f' % (time.time() - t)); return r
    def facts(self, n=12):
        for a in self.A[-n:]: print(str(a)[:600]); print('--')

if __name__ == '__main__':
    vc = VC(sys.argv[1])
