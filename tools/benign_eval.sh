#!/bin/sh
# benign_eval.sh <patch> <prop>...: apply a behaviour-preserving patch to /repo, run the checks (must all exit 0), revert.
patch=$1; shift
git -C /repo apply $patch || { echo "patch does not apply"; exit 2; }
bad=0
for p in "$@"; do
  ./check $p > /tmp/benign_check_$p.txt 2>&1; rc=$?
  echo "$(basename $patch) check $p: exit $rc"
  [ $rc -ne 0 ] && { bad=1; grep -E "^(VIOLATION|UNDECIDED|CHECKER|C[0-9]+:)" /tmp/benign_check_$p.txt | cut -c1-260 | head -8; }
done
git -C /repo checkout -- .
exit $bad
