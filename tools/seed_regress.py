#!/usr/bin/env python3
"""seed_regress.py [-j N] [seed-id ...]: re-run every recorded property-breaking change (seeded/<id>/patch.diff) against the checks
of its property, on a scratch copy of /repo (PYVC_REPO) with outputs in a scratch directory (PYVC_OUTDIR): /repo, evidence/ and
replays/ are not touched.  A seed counts as detected when the check of (one of) its properties exits 1 with a VIOLATION line.
Benign patches (seeded/benign/*.diff, properties in seeded/benign/PROPS.json) must exit 0."""
import json, os, shutil, subprocess, sys, tempfile
from concurrent.futures import ThreadPoolExecutor

HERE = os.path.dirname(os.path.dirname(os.path.abspath(__file__)))
REPO = os.environ.get('PYVC_REPO', '/repo')


def run(seed, patch, props, expect):
    scratch = tempfile.mkdtemp(prefix='sr_%s_' % seed)
    try:
        shutil.copytree(os.path.join(REPO, 'yowsup'), os.path.join(scratch, 'yowsup'))
        r = subprocess.run(['patch', '-p1', '-s', '-d', scratch, '-i', patch], capture_output=True, text=True)
        if r.returncode != 0:
            return seed, 'patch-failed', r.stdout[-300:]
        outs = []
        for p in props:
            env = dict(os.environ, PYVC_REPO=scratch, PYVC_OUTDIR=os.path.join(scratch, 'out'), PYVC_JOBS='4')
            if expect == 1:
                env['PYVC_SECOND'] = '0'       # a seed is expected to fail: the second attempt (load independence) only costs time here
            os.makedirs(os.path.join(scratch, 'out'), exist_ok=True)
            c = subprocess.run([os.path.join(HERE, 'check'), p], capture_output=True, text=True, env=env, cwd=HERE)
            lines = [l[:160] for l in c.stdout.splitlines() if l.startswith(('VIOLATION', 'UNDECIDED', 'CHECKER'))]
            outs.append((p, c.returncode, lines[:3]))
        if expect == 1:
            ok = any(rc == 1 for _, rc, _ in outs)
        else:
            ok = all(rc == 0 for _, rc, _ in outs)
        return seed, 'ok' if ok else 'MISMATCH', outs
    finally:
        shutil.rmtree(scratch, ignore_errors=True)


def main():
    a = sys.argv[1:]
    jobs = 4
    if a[:1] == ['-j']:
        jobs = int(a[1]); a = a[2:]
    tasks = []
    sd = os.path.join(HERE, 'seeded')
    for d in sorted(os.listdir(sd)):
        if d == 'benign':
            pm = json.load(open(os.path.join(sd, 'benign', 'PROPS.json')))
            for f in sorted(os.listdir(os.path.join(sd, 'benign'))):
                if f.endswith('.diff') and (not a or f[:-5] in a):
                    tasks.append((f[:-5], os.path.join(sd, 'benign', f), pm[f[:-5]], 0))
            continue
        mp = os.path.join(sd, d, 'meta.json')
        if not os.path.exists(mp) or (a and d not in a):
            continue
        m = json.load(open(mp))
        props = m.get('checks') or [m['property']]
        tasks.append((d, os.path.join(sd, d, 'patch.diff'), props, 1))
    bad = 0
    with ThreadPoolExecutor(jobs) as ex:
        for seed, st, outs in ex.map(lambda t: run(*t), tasks):
            print(seed, st, outs, flush=True)
            bad += st != 'ok'
    print('%d tasks, %d not as expected' % (len(tasks), bad))
    sys.exit(1 if bad else 0)


main()
