#!/usr/bin/env python3
"""mutate.py <sidecar> [--plugins a,b] [-j N] [--per-func K] [--only substr] [--seed S] [--out file.json]

Mutation analysis of the CONTRACTS (not of the repository): for every repository function under a (non-assumed) contract in the
sidecar, small syntactic mutants of the real function are written into a scratch copy of /repo and the prover is run on that one
function.  A mutant is *killed* when some obligation fails or the function leaves the supported subset (the check would not stay
green); it *survives* when everything is still discharged.  Survivors are either equivalent mutants or gaps in the contract: they
are listed with their diff for inspection.  Nothing under /repo or /verif is modified; this is a development tool, not a check.

Operators: comparison swap (== != < <= > >= is / is not, in / not in), and/or swap, condition negation, integer constant +1,
call statement deleted, first two positional arguments swapped, `return e` -> `return None`, string constant altered (logging calls,
docstrings and assert messages are left alone)."""
import ast, copy, json, os, random, re, shutil, subprocess, sys, tempfile, difflib
from concurrent.futures import ThreadPoolExecutor

HERE = os.path.dirname(os.path.dirname(os.path.abspath(__file__)))
REPO = os.environ.get('PYVC_REPO', '/repo')
sys.path.insert(0, HERE)


def is_logging(call):
    f = call.func
    return isinstance(f, ast.Attribute) and isinstance(f.value, ast.Name) and f.value.id in ('logger', 'logging') or \
        (isinstance(f, ast.Name) and f.id == 'print')


class Sites(ast.NodeVisitor):
    """collect mutation sites inside one function: (kind, node, extra)"""

    def __init__(self):
        self.sites = []
        self.skip = set()

    def visit_Expr(self, n):
        if isinstance(n.value, ast.Call):
            if is_logging(n.value):
                for x in ast.walk(n):
                    self.skip.add(id(x))
                return
            self.sites.append(('del-call', n, None))
        if isinstance(n.value, ast.Constant) and isinstance(n.value.value, str):
            return      # docstring
        self.generic_visit(n)

    def visit_Assert(self, n):
        if n.msg is not None:
            for x in ast.walk(n.msg):
                self.skip.add(id(x))
        self.generic_visit(n)

    def visit_Raise(self, n):
        for x in ast.walk(n):
            self.skip.add(id(x))        # exception messages

    def visit_Compare(self, n):
        if len(n.ops) == 1:
            self.sites.append(('cmp', n, None))
        self.generic_visit(n)

    def visit_BoolOp(self, n):
        self.sites.append(('boolop', n, None))
        self.generic_visit(n)

    def visit_If(self, n):
        self.sites.append(('neg-if', n, None))
        self.generic_visit(n)

    def visit_IfExp(self, n):
        self.sites.append(('neg-if', n, None))
        self.generic_visit(n)

    def visit_While(self, n):
        self.sites.append(('neg-if', n, None))
        self.generic_visit(n)

    def visit_Constant(self, n):
        if id(n) in self.skip:
            return
        if isinstance(n.value, bool) or n.value is None:
            return
        if isinstance(n.value, int):
            self.sites.append(('int', n, None))
        elif isinstance(n.value, str) and n.value:
            self.sites.append(('str', n, None))

    def visit_Call(self, n):
        if id(n) in self.skip or is_logging(n):
            return
        if len(n.args) >= 2 and not any(isinstance(a, ast.Starred) for a in n.args[:2]):
            self.sites.append(('swap-args', n, None))
        self.generic_visit(n)

    def visit_Return(self, n):
        if n.value is not None and not (isinstance(n.value, ast.Constant) and n.value.value is None):
            self.sites.append(('ret-none', n, None))
        self.generic_visit(n)

    def visit_FunctionDef(self, n):
        self.generic_visit(n)       # nested functions (continuations) are part of the contract's subject


CMP = {ast.Eq: ast.NotEq, ast.NotEq: ast.Eq, ast.Lt: ast.LtE, ast.LtE: ast.Lt, ast.Gt: ast.GtE, ast.GtE: ast.Gt,
       ast.Is: ast.IsNot, ast.IsNot: ast.Is, ast.In: ast.NotIn, ast.NotIn: ast.In}


def apply(kind, n):
    if kind == 'cmp':
        n.ops = [CMP[type(n.ops[0])]()]
    elif kind == 'boolop':
        n.op = ast.Or() if isinstance(n.op, ast.And) else ast.And()
    elif kind == 'neg-if':
        n.test = ast.UnaryOp(op=ast.Not(), operand=n.test)
    elif kind == 'int':
        n.value = n.value + 1
    elif kind == 'str':
        n.value = n.value + 'X'
    elif kind == 'del-call':
        n.value = ast.Constant(value=None)
    elif kind == 'swap-args':
        n.args[0], n.args[1] = n.args[1], n.args[0]
    elif kind == 'ret-none':
        n.value = ast.Constant(value=None)


def find_func(tree, qualname):
    parts = qualname.split('.')
    scope = tree
    for p in parts:
        nxt = None
        for ch in ast.walk(scope) if scope is tree and len(parts) == 1 else ast.iter_child_nodes(scope):
            if isinstance(ch, (ast.ClassDef, ast.FunctionDef)) and ch.name == p:
                nxt = ch
                break
        if nxt is None:
            return None
        scope = nxt
    return scope if isinstance(scope, ast.FunctionDef) else None


def mutants_of(src, qualname, per_func, rng):
    tree = ast.parse(src)
    fn = find_func(tree, qualname)
    if fn is None:
        return []
    s = Sites()
    for st in fn.body:
        s.visit(st)
    n_sites = len(s.sites)
    idxs = list(range(n_sites))
    rng.shuffle(idxs)
    out = []
    base = ast.unparse(ast.parse(src))
    for i in idxs[:per_func]:
        t2 = ast.parse(src)
        f2 = find_func(t2, qualname)
        s2 = Sites()
        for st in f2.body:
            s2.visit(st)
        kind, node, _ = s2.sites[i]
        try:
            apply(kind, node)
            ast.fix_missing_locations(t2)
            new = ast.unparse(t2)
        except Exception:
            continue
        if new == base:
            continue
        d = [l for l in difflib.unified_diff(base.splitlines(), new.splitlines(), lineterm='', n=0) if l[:1] in '+-' and not l.startswith(('+++', '---'))]
        out.append({'kind': kind, 'diff': d[:6], 'source': new})
    return out


def run_one(task):
    sidecar, plugins, file, qual, mut, scratch_root, timeout_ms = task
    d = tempfile.mkdtemp(prefix='mut_', dir=scratch_root)
    try:
        os.symlink(os.path.join(REPO, '.git'), os.path.join(d, '.git')) if False else None
        shutil.copytree(os.path.join(REPO, 'yowsup'), os.path.join(d, 'yowsup'))
        open(os.path.join(d, file), 'w').write(mut['source'])
        env = dict(os.environ, PYVC_REPO=d, PYVC_TIMEOUT_MS=str(timeout_ms), PYVC_PLUGINS=plugins, PYTHONDONTWRITEBYTECODE='1')
        try:
            p = subprocess.run(['python3-vt', '-m', 'pyvc.run', sidecar, qual], cwd=HERE, capture_output=True, text=True, env=env, timeout=600)
            out = p.stdout + p.stderr
        except subprocess.TimeoutExpired:
            return {'func': qual, 'kind': mut['kind'], 'diff': mut['diff'], 'verdict': 'killed', 'why': 'prover time-out (600 s)'}
        fails = [l for l in out.splitlines() if l.startswith('FAIL')]
        unsup = [l for l in out.splitlines() if l.startswith(('function', 'lemma')) and 'unsupported []' not in l]
        tb = 'Traceback' in out
        m = re.search(r'obligations (\d+) failed (\d+)', out)
        if fails or unsup or tb or not m:
            why = (fails[0][:160] if fails else unsup[0][:160] if unsup else 'traceback' if tb else 'no summary')
            return {'func': qual, 'kind': mut['kind'], 'diff': mut['diff'], 'verdict': 'killed', 'why': why}
        return {'func': qual, 'kind': mut['kind'], 'diff': mut['diff'], 'verdict': 'SURVIVED', 'why': 'obligations %s failed 0' % m.group(1)}
    finally:
        shutil.rmtree(d, ignore_errors=True)


def main():
    a = sys.argv[1:]
    sidecar = a[0]
    opt = {'--plugins': '', '-j': '8', '--per-func': '6', '--only': '', '--seed': '1', '--out': '', '--timeout-ms': '4000'}
    i = 1
    while i < len(a):
        opt[a[i]] = a[i + 1]
        i += 2
    from pyvc.driver import Context
    ctx = Context(repo_root=REPO, timeout_ms=1000)
    for plug in opt['--plugins'].split(','):
        if plug:
            mod = __import__('pyvc.' + plug, fromlist=['x'])
            ctx.plugins.append(mod.Plugin(ctx))
    ctx.load_sidecar(sidecar)
    ctx.finalize()
    rng = random.Random(int(opt['--seed']))
    scratch_root = tempfile.mkdtemp(prefix='mutroot_')
    tasks = []
    for (file, qual), c in ctx.registry.contracts.items():
        if c.assumed or file.startswith('<') or (opt['--only'] and opt['--only'] not in qual):
            continue
        path = os.path.join(REPO, file)
        if not os.path.isfile(path):
            continue
        for m in mutants_of(open(path, encoding='utf-8').read(), qual, int(opt['--per-func']), rng):
            tasks.append((sidecar, opt['--plugins'], file, qual, m, scratch_root, int(opt['--timeout-ms'])))
    print('%d mutants of %d functions' % (len(tasks), len({t[3] for t in tasks})), flush=True)
    res = []
    try:
        with ThreadPoolExecutor(int(opt['-j'])) as ex:
            for r in ex.map(run_one, tasks):
                res.append(r)
                if r['verdict'] != 'killed':
                    print(r['verdict'], r['func'], r['kind'], ' | '.join(r['diff'])[:300], flush=True)
    finally:
        shutil.rmtree(scratch_root, ignore_errors=True)
    k = sum(1 for r in res if r['verdict'] == 'killed')
    print('killed %d / %d (%.0f%%)' % (k, len(res), 100.0 * k / max(1, len(res))))
    by = {}
    for r in res:
        b = by.setdefault(r['func'], [0, 0])
        b[0] += r['verdict'] == 'killed'
        b[1] += 1
    for f, (kk, n) in sorted(by.items()):
        if kk < n:
            print('  %-60s %d/%d' % (f, kk, n))
    if opt['--out']:
        json.dump(res, open(opt['--out'], 'w'), indent=1)


main()
