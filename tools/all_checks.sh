#!/bin/sh
# all_checks.sh [tier]: every claimed property's check in parallel on the current /repo; prints one line per property (exit code)
cd "$(dirname "$0")/.."
tier=${1:-quick}
out=$(mktemp -d)
for p in $(python3 -c "import json; print(' '.join(c['property_id'] for c in json.load(open('MANIFEST.json'))['checks']))"); do
  ( ./check $p --tier $tier > $out/$p.txt 2>&1; echo "$p exit $? $(grep -E "^$p:" $out/$p.txt | cut -c1-150)"; grep -E "^(VIOLATION|UNDECIDED|CHECKER)" $out/$p.txt | cut -c1-200 ) &
done
wait
rm -rf $out
